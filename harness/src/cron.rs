//! Cron operations (C16, C17).  The clock read by `CronSchedule::next` is pinned through the
//! verification hook `astrolabe::verif::set_cron_now`; results are projected to
//! `<<day number, minute of day>>` pairs (seconds and nanoseconds must be zero, offset zero).

use crate::model::*;
use crate::util::*;
use astrolabe::{CronSchedule, DateTime, DateUtilities, OffsetUtilities, TimeUtilities};
use serde_json::{json, Value};

fn pin(dn: i64, sod: i64) {
    astrolabe::verif::set_cron_now(DateTime::from_timestamp(ts_of_dn(dn) + sod));
}

/// `[dn, minute of day]`, or a record showing what is wrong with the value.
fn proj_fire(d: &DateTime) -> Value {
    let ts = d.timestamp();
    let sod = ts.rem_euclid(86_400);
    let dn = ts.div_euclid(86_400) + EPOCH_DN;
    if sod % 60 == 0 && d.nano() == 0 && d.get_offset().resolve() == 0 {
        json!([dn, sod / 60])
    } else {
        json!({"dn": dn, "sod": sod, "ns": d.nano(), "off": d.get_offset().resolve()})
    }
}

fn next_once(expr: &str, dn: i64, sod: i64) -> Option<Value> {
    let mut s = CronSchedule::parse(expr).ok()?;
    pin(dn, sod);
    s.next().map(|d| proj_fire(&d))
}

/// Is the whole minute (dn, mod) yielded when the clock stands one minute before it?
fn fires_at(expr: &str, dn: i64, minute_of_day: i64) -> bool {
    let total = dn * 1440 + minute_of_day - 1;
    let (pdn, pmod) = (total.div_euclid(1440), total.rem_euclid(1440));
    next_once(expr, pdn, pmod * 60 + 59) == Some(json!([dn, minute_of_day]))
}

/// Day number of a date, through the public API (no calendar arithmetic in the harness).
fn dn_of(y: i32, m: u32, d: u32) -> i64 {
    astrolabe::Date::from_ymd(y, m, d).unwrap().timestamp().div_euclid(86_400) + EPOCH_DN
}

fn month_start_2022(m: i64) -> i64 {
    dn_of(2022, m as u32, 1)
}

/// The set field `k` denotes, read through the iterator (all other fields are `*`).
fn probe_field(expr: &str, k: i64) -> Vec<i64> {
    let mut out = Vec::new();
    match k {
        1 => {
            for v in 0..60 {
                if fires_at(expr, dn_of(2022, 1, 1), 600 + v) {
                    out.push(v);
                }
            }
        }
        2 => {
            for v in 0..24 {
                if fires_at(expr, dn_of(2022, 1, 1), v * 60) {
                    out.push(v);
                }
            }
        }
        3 => {
            for v in 1..=31 {
                if fires_at(expr, dn_of(2022, 1, 1) + v - 1, 0) {
                    out.push(v);
                }
            }
        }
        4 => {
            for v in 1..=12 {
                if fires_at(expr, month_start_2022(v), 0) {
                    out.push(v);
                }
            }
        }
        _ => {
            for v in 0..7 {
                if fires_at(expr, dn_of(2022, 5, 1) + v, 0) /* 2022-05-01 is a Sunday */ {
                    out.push(v);
                }
            }
        }
    }
    out
}

pub fn run_case(c: &Value) -> Value {
    let op = gs(c, "op");
    let expr = unchars(&c["expr"]);
    match op {
        "cron_parse" => match CronSchedule::parse(&expr) {
            Err(e) => err_value(&e),
            Ok(mut s) => {
                let probe = c["probe"].as_i64().unwrap_or(-1);
                // FromStr must agree with parse
                let via_fromstr = expr.parse::<CronSchedule>().is_ok();
                if !via_fromstr {
                    return json!({"k": "ok", "from_str": "err"});
                }
                if probe > 0 {
                    json!({"k": "ok", "field": probe, "set": probe_field(&expr, probe)})
                } else if probe == 0 {
                    pin(dn_of(2022, 1, 1), 0);
                    let mut rs = Vec::new();
                    for _ in 0..5 {
                        match s.next() {
                            Some(d) => rs.push(proj_fire(&d)),
                            None => rs.push(json!("none")),
                        }
                    }
                    json!({"k": "ok", "results": rs})
                } else {
                    json!({"k": "ok"})
                }
            }
        },
        "cron_hist" => {
            let mut s = match CronSchedule::parse(&expr) {
                Ok(s) => s,
                Err(e) => return err_value(&e),
            };
            let st = c["start"].as_array().unwrap();
            let mut clock = st[0].as_i64().unwrap() * 86_400 + st[1].as_i64().unwrap();
            let mut rs = Vec::new();
            let mut clone_agrees = true;
            for a in c["advances"].as_array().unwrap() {
                clock += a.as_i64().unwrap();
                pin(clock.div_euclid(86_400), clock.rem_euclid(86_400));
                // a clone taken before the call continues identically
                let mut twin = s.clone();
                let r = s.next();
                let r2 = twin.next();
                match (&r, &r2) {
                    (Some(x), Some(y)) => {
                        if x != y || proj_fire(x) != proj_fire(y) {
                            clone_agrees = false;
                        }
                    }
                    (None, None) => {}
                    _ => clone_agrees = false,
                }
                match r {
                    Some(d) => rs.push(proj_fire(&d)),
                    None => rs.push(json!("none")),
                }
            }
            if clone_agrees {
                json!({"k": "ok", "results": rs})
            } else {
                json!({"k": "ok", "results": rs, "clone": "diverged"})
            }
        }
        _ => json!({"k": "unknown-op", "op": op}),
    }
}

/// Channel B for C17: random histories; each line is one history with the observed results.
pub fn record(args: &[String]) {
    let out = arg_value(args, "--out").expect("--out");
    let n: u64 = arg_value(args, "--n").and_then(|x| x.parse().ok()).unwrap_or(1000);
    let c16 = arg_value(args, "--mode").as_deref() == Some("c16");
    let mut rng = Rng::new(seed_from_env());
    let mut w = NdjsonOut::create(&out);
    for i in 0..n {
        let expr = if c16 { random_expr_c16(&mut rng, true) } else if rng.chance(1, 2) { random_expr_c16(&mut rng, false) } else { random_expr(&mut rng) };
        let dn = rng.range_i64(719_162, 876_000); // 1970 .. ~2399
        let sod = if rng.chance(1, 3) { *rng.pick(&[0i64, 59, 60, 86_399, 86_340, 3599]) } else { rng.range_i64(0, 86_399) };
        let calls = 2 + rng.below(4);
        let mut advances = Vec::new();
        for _ in 0..calls {
            advances.push(match rng.below(8) {
                0 | 1 => 0,
                2 => 1,
                3 => rng.range_i64(1, 120),
                4 => rng.range_i64(1, 90_000),
                5 => *rng.pick(&[59i64, 60, 61, 3599, 3600, 86_399, 86_400, 2_678_400, 31_536_000, 31_622_400, 63_158_400, 126_230_400]),
                6 => rng.range_i64(1, 40) * 86_400,
                _ => rng.range_i64(0, 34_560_000),
            });
        }
        // flattened events: new / tick / next (the trace specification carries `last` itself)
        let mut seq = i * 16;
        let parsed = CronSchedule::parse(&expr);
        w.emit(&json!({"i": seq, "ev": "new", "expr": chars(&expr), "start": [dn, sod],
                       "parsed": if parsed.is_ok() { "ok" } else { "err" }}));
        let mut sched = match parsed {
            Ok(s) => s,
            Err(_) => continue,
        };
        if c16 && !surely_satisfiable(&expr) {
            // accept/reject is judged; the iterator is not driven into a schedule that may never fire
            continue;
        }
        let mut clock = dn * 86_400 + sod;
        for a in advances {
            seq += 1;
            w.emit(&json!({"i": seq, "ev": "tick", "d": a}));
            clock += a;
            pin(clock.div_euclid(86_400), clock.rem_euclid(86_400));
            watch(|| json!({"cron_history": {"i": seq, "expr": expr, "clock": [clock.div_euclid(86_400), clock.rem_euclid(86_400)]}}).to_string());
            // always a record: {"fire": [dn, minute of day]} | {"odd": ..} | {"none": true} | {"panic": ..}
            let r = match guarded(|| sched.next().map(|d| proj_fire(&d))) {
                Outcome::Ok(Some(v)) if v.is_array() => json!({"fire": v}),
                Outcome::Ok(Some(v)) => json!({"odd": v}),
                Outcome::Ok(None) => json!({"none": true}),
                Outcome::Panic(msg) => json!({"panic": chars(&msg)}),
            };
            unwatch();
            seq += 1;
            w.emit(&json!({"i": seq, "ev": "next", "res": r}));
        }
    }
    let lines = w.finish();
    println!("{}", json!({"events": lines}));
}

fn rand_item(rng: &mut Rng, min: i64, max: i64, names: Option<&[&str]>) -> String {
    match rng.below(7) {
        0 => "*".to_string(),
        1 => format!("*/{}", rng.range_i64(1, max + 1)),
        2 | 3 => {
            let v = rng.range_i64(min, max);
            match names {
                Some(ns) if rng.chance(1, 3) => ns[(v - min) as usize].to_string(),
                _ => v.to_string(),
            }
        }
        _ => {
            let a = rng.range_i64(min, max);
            let b = rng.range_i64(a, max);
            match names {
                Some(ns) if rng.chance(1, 3) => format!("{}-{}", ns[(a - min) as usize], ns[(b - min) as usize]),
                _ => format!("{}-{}", a, b),
            }
        }
    }
}

fn rand_field(rng: &mut Rng, min: i64, max: i64, names: Option<&[&str]>, star_bias: u64) -> String {
    if rng.chance(star_bias, 10) {
        return "*".to_string();
    }
    let k = 1 + rng.below(3);
    (0..k).map(|_| rand_item(rng, min, max, names)).collect::<Vec<_>>().join(",")
}

/// A random expression from the documented grammar that is satisfiable by construction: the
/// day-of-month field only uses days 1..=28 unless the month field is `*`.
fn random_expr(rng: &mut Rng) -> String {
    const MONTHS: [&str; 12] = ["jan", "Feb", "MAR", "apr", "May", "JUN", "jul", "Aug", "SEP", "oct", "Nov", "DEC"];
    const DAYS: [&str; 7] = ["sun", "Mon", "TUE", "wed", "Thu", "FRI", "sat"];
    let minute = rand_field(rng, 0, 59, None, 3);
    let hour = rand_field(rng, 0, 23, None, 4);
    if rng.chance(1, 25) {
        // the sparsest satisfiable schedule: leap days only (gaps of four and, around 1900/2100/2200/2300, eight years)
        return format!("{} {} 29 2 *", minute, hour);
    }
    let month = rand_field(rng, 1, 12, Some(&MONTHS), 5);
    let dom_max = if month == "*" { 31 } else { 28 };
    let dom = rand_field(rng, 1, dom_max, None, 5);
    let dow = rand_field(rng, 0, 6, Some(&DAYS), 5);
    format!("{} {} {} {} {}", minute, hour, dom, month, dow)
}

/// C16 channel B: the documented grammar in its full width (lists containing `*`, weekday 7, names in
/// ranges, steps) and, for 2 in 5 expressions, one or two random character edits.
fn random_expr_c16(rng: &mut Rng, mutate: bool) -> String {
    const MONTHS: [&str; 12] = ["jan", "Feb", "MAR", "apr", "May", "JUN", "jul", "Aug", "SEP", "oct", "Nov", "DEC"];
    const DAYS: [&str; 8] = ["sun", "Mon", "TUE", "wed", "Thu", "FRI", "sat", "7"];
    let minute = rand_field(rng, 0, 59, None, 2);
    let hour = rand_field(rng, 0, 23, None, 3);
    let month = rand_field(rng, 1, 12, Some(&MONTHS), 4);
    let dom_max = if month == "*" { 31 } else { 28 };
    let dom = rand_field(rng, 1, dom_max, None, 4);
    // weekday: 0..=7 where 7 is Sunday again
    let dow = if rng.chance(1, 2) { rand_field(rng, 0, 7, Some(&DAYS), 2) } else { rand_field(rng, 0, 6, Some(&DAYS[..7]), 2) };
    let sep = |rng: &mut Rng| match rng.below(12) {
        0 => "  ",
        1 => "\t",
        _ => " ",
    };
    let mut e = String::new();
    for (k, f) in [minute, hour, dom, month, dow].iter().enumerate() {
        if k > 0 {
            e.push_str(sep(rng));
        }
        e.push_str(f);
    }
    if mutate && rng.chance(2, 5) {
        const ALPHA: [char; 24] = ['0', '1', '2', '3', '5', '6', '7', '8', '9', '*', '/', ',', '-', ' ', '+', 'a', 'n', 'u', 's', 'J', 'x', '?', 'L', '#'];
        let edits = 1 + rng.below(2);
        for _ in 0..edits {
            let mut cs: Vec<char> = e.chars().collect();
            let pos = rng.below(cs.len() as u64 + 1) as usize;
            match rng.below(3) {
                0 if pos < cs.len() => {
                    cs.remove(pos);
                }
                1 if pos < cs.len() => cs[pos] = *rng.pick(&ALPHA),
                _ => cs.insert(pos, *rng.pick(&ALPHA)),
            }
            e = cs.into_iter().collect();
        }
    }
    e
}

/// Conservative: some day of month that every month has is in the day field, or every month is allowed.
fn surely_satisfiable(expr: &str) -> bool {
    let f: Vec<&str> = expr.split_whitespace().collect();
    if f.len() != 5 {
        return false;
    }
    if f[3] == "*" || f[2].contains('*') {
        return true;
    }
    f[2].split(|c: char| !c.is_ascii_digit())
        .filter_map(|t| t.parse::<u32>().ok())
        .any(|v| (1..=28).contains(&v))
}
