//! Conformance harness binding the TLA+ specification in /verif/spec to astrolabe.
//! Sub-commands:
//!   sweep          exhaustive table-oracle sweeps (channel C)
//!   oracle-sample  log oracle + implementation answers for TLC (channel B)
mod cases;
mod cron;
mod model;
mod ops;
mod sessions;
mod sweep;
mod text;
mod tz;
mod util;

fn main() {
    let args: Vec<String> = std::env::args().collect();
    if args.len() < 2 {
        eprintln!("usage: harness <sweep|oracle-sample|...> [options]");
        std::process::exit(2);
    }
    util::install_silent_panic_hook();
    match args[1].as_str() {
        "sweep" => sweep::main(&args[2..]),
        "oracle-sample" => sweep::oracle_sample(&args[2..]),
        "replay" => cases::main(&args[2..]),
        "record" => sessions::main(&args[2..]),
        "record-cron" => cron::record(&args[2..]),
        "record-tz" => tz::record(&args[2..]),
        "fuzz-tz" => tz::fuzz(&args[2..]),
        "record-text" => text::record(&args[2..]),
        "observe" => text::observe(&args[2..]),
        "families" => text::families(&args[2..]),
        "local-resolve" => tz::local_resolve(),
        "tz-abstract" => tz::abstract_of(&args[2..]),
        "tz-hostile-bytes" => tz::hostile_bytes(&args[2..]),
        other => {
            eprintln!("unknown sub-command {}", other);
            std::process::exit(2);
        }
    }
}
