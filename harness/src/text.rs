//! Text operations (C11, C12, C13, C14, C20): format / parse / RFC 3339 / Display / FromStr / serde.
//! `exec` serves both the TLC-generated cases (channel A) and the recorded observations (channel B).

use crate::model::*;
use crate::ops::*;
use crate::util::*;
use astrolabe::{CronSchedule, Date, DateTime, DateUtilities, OffsetUtilities, Precision, Time, TimeUtilities};
use serde_json::{json, Value};

fn fmt_val(v: &Val, p: &str) -> Value {
    let r = match v {
        Val::Date(d) => guarded(|| d.format(p)),
        Val::Dt(d) => guarded(|| d.format(p)),
        Val::Time(t) => guarded(|| t.format(p)),
        Val::None => return json!({"none": true}),
    };
    match r {
        Outcome::Ok(s) => chars(&s),
        Outcome::Panic(m) => json!({"panic": chars(&m)}),
    }
}

fn getters(v: &Val) -> Value {
    match guarded(|| match v {
        Val::Date(x) => json!({"y": x.year(), "m": x.month(), "d": x.day()}),
        Val::Dt(x) => json!({"y": x.year(), "m": x.month(), "d": x.day(), "h": x.hour(), "mi": x.minute(), "s": x.second(),
                             "nsf": x.nano(), "off": x.get_offset().resolve()}),
        Val::Time(x) => json!({"h": x.hour(), "mi": x.minute(), "s": x.second(), "nsf": x.nano(), "off": x.get_offset().resolve()}),
        Val::None => json!({}),
    }) {
        Outcome::Ok(j) => j,
        Outcome::Panic(_) => json!({"panic": true}),
    }
}

fn parse_as(ty: &str, s: &str, p: &str) -> (Value, Val) {
    let r = guarded(|| match ty {
        "date" => Date::parse(s, p).map(Val::Date),
        "time" => Time::parse(s, p).map(Val::Time),
        _ => DateTime::parse(s, p).map(Val::Dt),
    });
    match r {
        Outcome::Ok(Ok(v)) => match guarded(|| v.proj()) {
            Outcome::Ok(pj) => (pj, v),
            Outcome::Panic(m) => (json!({"k": "panic", "where": "projection", "msg": chars(&m)}), Val::None),
        },
        Outcome::Ok(Err(e)) => (err_value(&e), Val::None),
        Outcome::Panic(m) => (json!({"k": "panic", "msg": chars(&m)}), Val::None),
    }
}

fn prec_of(d: u64) -> Precision {
    match d {
        0 => Precision::Seconds,
        2 => Precision::Centis,
        3 => Precision::Millis,
        6 => Precision::Micros,
        _ => Precision::Nanos,
    }
}

/// Is an `Ok` value a valid in-range, canonical value?  (C14: whenever Ok is returned ...)
fn valid_value(v: &Val) -> bool {
    match guarded(|| match v {
        Val::Date(d) => {
            let (y, m, dd) = d.as_ymd();
            Date::from_ymd(y, m, dd).map(|b| b == *d).unwrap_or(false)
        }
        Val::Time(t) => t.as_nanos() < 86_400_000_000_000,
        Val::Dt(d) => {
            let _ = (d.year(), d.month(), d.day(), d.hour(), d.minute(), d.second(), d.nano(), d.weekday(), d.day_of_year());
            let x = DateTime::from_timestamp(d.timestamp());
            x.timestamp() == d.timestamp()
        }
        Val::None => false,
    }) {
        Outcome::Ok(b) => b,
        Outcome::Panic(_) => false,
    }
}

fn class_of(r: Outcome<Result<Val, astrolabe::errors::AstrolabeError>>) -> Value {
    match r {
        Outcome::Ok(Ok(v)) => json!({"k": "ok", "valid": valid_value(&v)}),
        Outcome::Ok(Err(e)) => err_value(&e),
        Outcome::Panic(m) => json!({"k": "panic", "msg": chars(&m)}),
    }
}

pub fn exec(c: &Value) -> Value {
    let op = gs(c, "op");
    match op {
        "format" => {
            let v = val_from_json(&c["val"]);
            json!({"out": fmt_val(&v, &unchars(&c["p"]))})
        }
        "roundtrip" => {
            let v = val_from_json(&c["val"]);
            let p = unchars(&c["p"]);
            let ty = gs(&c["val"], "ty");
            let s = fmt_val(&v, &p);
            if !s.is_array() {
                return json!({"s": s, "r": {"k": "none"}, "rf": {}, "s2": {"none": true}});
            }
            let (r, back) = parse_as(ty, &unchars(&s), &p);
            let rf = getters(&back);
            let s2 = fmt_val(&back, &p);
            json!({"s": s, "r": r, "rf": rf, "s2": s2})
        }
        "rfc_write" => {
            let v = val_from_json(&c["val"]).dt();
            let prec = c["prec"].as_u64().unwrap();
            match guarded(|| v.format_rfc3339(prec_of(prec))) {
                Outcome::Ok(s) => json!({"out": chars(&s)}),
                Outcome::Panic(m) => json!({"out": {"panic": chars(&m)}}),
            }
        }
        "rfc_read" => {
            let s = unchars(&c["s"]);
            let r = match guarded(|| DateTime::parse_rfc3339(&s)) {
                Outcome::Ok(Ok(d)) => proj_dt_full(&d),
                Outcome::Ok(Err(e)) => err_value(&e),
                Outcome::Panic(m) => json!({"k": "panic", "msg": chars(&m)}),
            };
            // FromStr for DateTime is the same reader
            let f = match guarded(|| s.parse::<DateTime>()) {
                Outcome::Ok(Ok(d)) => proj_dt_full(&d),
                Outcome::Ok(Err(e)) => err_value(&e),
                Outcome::Panic(_) => json!({"k": "panic"}),
            };
            if f == r || (f["k"] == "panic" && r["k"] == "panic") {
                json!({"r": r})
            } else {
                json!({"r": {"k": "from_str_differs", "parse_rfc3339": r, "from_str": f}})
            }
        }
        "display" => {
            let v = val_from_json(&c["val"]);
            let r = match &v {
                Val::Date(d) => guarded(|| d.to_string()),
                Val::Dt(d) => guarded(|| d.to_string()),
                Val::Time(t) => guarded(|| t.to_string()),
                Val::None => Outcome::Panic("none".into()),
            };
            match r {
                Outcome::Ok(s) => json!({"out": chars(&s)}),
                Outcome::Panic(m) => json!({"out": {"panic": chars(&m)}}),
            }
        }
        "fromstr" => {
            // the FromStr text form of the value, and what from_str makes of it
            let v = val_from_json(&c["val"]);
            let (s, r) = match &v {
                Val::Date(d) => {
                    let s = d.format("yyyy-MM-dd");
                    let r = match guarded(|| s.parse::<Date>()) {
                        Outcome::Ok(Ok(x)) => proj_date(&x),
                        Outcome::Ok(Err(e)) => err_value(&e),
                        Outcome::Panic(_) => json!({"k": "panic"}),
                    };
                    (s, r)
                }
                Val::Time(t) => {
                    let s = t.format("HH:mm:ss");
                    let r = match guarded(|| s.parse::<Time>()) {
                        Outcome::Ok(Ok(x)) => proj_time_full(&x),
                        Outcome::Ok(Err(e)) => err_value(&e),
                        Outcome::Panic(_) => json!({"k": "panic"}),
                    };
                    (s, r)
                }
                _ => (String::new(), json!({"k": "skip"})),
            };
            json!({"s": chars(&s), "r": r})
        }
        "serde" => {
            let v = val_from_json(&c["val"]);
            let r = guarded(|| match &v {
                Val::Date(d) => {
                    let j = serde_json::to_string(d).unwrap();
                    let b = serde_json::from_str::<Date>(&j).map(Val::Date).map_err(|e| e.to_string());
                    (j, b)
                }
                Val::Time(t) => {
                    let j = serde_json::to_string(t).unwrap();
                    let b = serde_json::from_str::<Time>(&j).map(Val::Time).map_err(|e| e.to_string());
                    (j, b)
                }
                Val::Dt(d) => {
                    let j = serde_json::to_string(d).unwrap();
                    let b = serde_json::from_str::<DateTime>(&j).map(Val::Dt).map_err(|e| e.to_string());
                    (j, b)
                }
                Val::None => (String::new(), Err("none".to_string())),
            });
            match r {
                Outcome::Ok((j, Ok(b))) => json!({"json": chars(&j), "back": b.proj(), "backf": getters(&b)}),
                Outcome::Ok((j, Err(e))) => json!({"json": chars(&j), "back": {"k": "err", "msg": chars(&e)}, "backf": {}}),
                Outcome::Panic(m) => json!({"json": [], "back": {"k": "panic", "msg": chars(&m)}, "backf": {}}),
            }
        }
        // ---------------------------------------------------------------- C14: outcome classes only
        "parse_any" => {
            let (s, p) = (unchars(&c["s"]), unchars(&c["p"]));
            let ty = gs(c, "ty");
            json!({"res": class_of(guarded(|| match ty {
                "date" => Date::parse(&s, &p).map(Val::Date),
                "time" => Time::parse(&s, &p).map(Val::Time),
                _ => DateTime::parse(&s, &p).map(Val::Dt),
            }))})
        }
        "format_any" => {
            let v = val_from_json(&c["val"]);
            let out = fmt_val(&v, &unchars(&c["p"]));
            json!({"res": if out.is_array() { json!({"k": "ok", "valid": true}) } else { json!({"k": "panic", "msg": out["panic"]}) }})
        }
        "rfc_any" => {
            let s = unchars(&c["s"]);
            json!({"res": class_of(guarded(|| DateTime::parse_rfc3339(&s).map(Val::Dt)))})
        }
        "fromstr_any" => {
            let s = unchars(&c["s"]);
            let ty = gs(c, "ty");
            json!({"res": class_of(guarded(|| match ty {
                "date" => s.parse::<Date>().map(Val::Date),
                "time" => s.parse::<Time>().map(Val::Time),
                _ => s.parse::<DateTime>().map(Val::Dt),
            }))})
        }
        "serde_any" => {
            // a JSON string whose content is arbitrary text: must give a serde error or a valid value
            let s = unchars(&c["s"]);
            let ty = gs(c, "ty");
            let j = serde_json::to_string(&s).unwrap();
            let r = guarded(|| match ty {
                "date" => serde_json::from_str::<Date>(&j).map(Val::Date).map_err(|e| e.to_string()),
                "time" => serde_json::from_str::<Time>(&j).map(Val::Time).map_err(|e| e.to_string()),
                _ => serde_json::from_str::<DateTime>(&j).map(Val::Dt).map_err(|e| e.to_string()),
            });
            json!({"res": match r {
                Outcome::Ok(Ok(v)) => json!({"k": "ok", "valid": valid_value(&v)}),
                Outcome::Ok(Err(_)) => json!({"k": "err", "v": "serde"}),
                Outcome::Panic(m) => json!({"k": "panic", "msg": chars(&m)}),
            }})
        }
        "cron_any" => {
            let s = unchars(&c["s"]);
            let r = guarded(|| (CronSchedule::parse(&s).is_ok(), s.parse::<CronSchedule>().is_ok()));
            json!({"res": match r {
                Outcome::Ok((a, b)) if a == b => if a { json!({"k": "ok", "valid": true}) } else { json!({"k": "err", "v": "InvalidFormat"}) },
                Outcome::Ok(_) => json!({"k": "ok", "valid": false}),
                Outcome::Panic(m) => json!({"k": "panic", "msg": chars(&m)}),
            }})
        }
        _ => json!({"k": "unknown-op", "op": op}),
    }
}

/// Observed outcome in the shape the generated cases expect (channel A).
pub fn run_case(c: &Value) -> Value {
    let r = exec(c);
    if r["k"] == "unknown-op" {
        return r;
    }
    match gs(c, "op") {
        "format" | "display" | "rfc_write" => json!({"k": "ok", "out": r["out"]}),
        "rfc_read" => r["r"].clone(),
        "parse_any" | "format_any" | "rfc_any" | "fromstr_any" | "serde_any" | "cron_any" => {
            let res = &r["res"];
            if res["k"] == "ok" && res["valid"] == false {
                json!({"k": "invalid-ok"})
            } else if res["k"] == "panic" {
                json!({"k": "panic", "msg": res["msg"]})
            } else {
                json!({"k": res["k"]})
            }
        }
        _ => {
            let mut o = r;
            o["k"] = json!("ok");
            o
        }
    }
}

// ------------------------------------------------------------------------------------------
// channel B recorders
// ------------------------------------------------------------------------------------------
const SYMS: [char; 19] = ['G', 'y', 'q', 'M', 'w', 'd', 'D', 'e', 'a', 'b', 'h', 'H', 'K', 'k', 'm', 's', 'n', 'X', 'x'];
const PUNCT: [&str; 12] = ["-", "/", ":", ".", " ", ",", "_", "(", ")", "#", "é", "日"];
const LETTERS: [&str; 8] = ["T", "Z", "Q", "j", "o", "ß", "U", "i"];

fn rand_value(s: &mut crate::sessions::Session, ty: &str) -> Value {
    match ty {
        "date" => s.date_val(),
        "time" => s.time_val(true),
        _ => {
            let mut v = s.dt_val(true);
            // keep the local view inside the range (one-day margin)
            let dn = v["dn"].as_i64().unwrap().clamp(i32::MIN as i64 + 2, i32::MAX as i64 - 2);
            v["dn"] = json!(dn);
            v
        }
    }
}

fn rand_pattern(rng: &mut Rng, ty: &str) -> String {
    let n = 1 + rng.below(7);
    let mut p = String::new();
    for _ in 0..n {
        match rng.below(10) {
            0..=5 => {
                let c = *rng.pick(&SYMS);
                let w = match rng.below(6) {
                    0 => 1 + rng.below(10),
                    _ => 1 + rng.below(5),
                } as usize;
                // separate equal neighbouring symbols so that runs stay what was chosen
                if p.ends_with(c) {
                    p.push('-');
                }
                for _ in 0..w {
                    p.push(c);
                }
            }
            6 | 7 => p.push_str(*rng.pick(&PUNCT)),
            8 => {
                p.push('\'');
                let k = 1 + rng.below(4);
                for _ in 0..k {
                    match rng.below(6) {
                        0 => p.push_str("''"),
                        1 => p.push_str(*rng.pick(&PUNCT)),
                        2 => p.push(*rng.pick(&SYMS)),
                        _ => p.push_str(*rng.pick(&LETTERS)),
                    }
                }
                p.push('\'');
            }
            _ => {
                if ty == "dt" {
                    p.push_str(*rng.pick(&LETTERS));
                } else {
                    p.push_str(*rng.pick(&PUNCT));
                }
            }
        }
    }
    p
}

/// A random pattern meant to lie in C12's unambiguous grammar (the validator re-checks that).
fn rand_grammar_pattern(rng: &mut Rng, ty: &str) -> String {
    let date_fields: Vec<Vec<&str>> = vec![
        vec!["y", "yyy", "yyyy", "yyyyy", "yyyyyyy", "yy"],
        vec!["M", "MM", "MMM", "MMMM", "MMMMMM"],
        vec!["d", "dd", "ddd"],
        vec!["D", "DD", "DDD", "DDDD"],
        vec!["G", "GGGG", "GGGGG", "q", "qq", "qqq", "qqqq", "w", "ww", "e", "ee", "eee", "eeee", "eeeee", "eeeeee", "eeeeeee", "eeeeeeee"],
    ];
    let time_fields: Vec<Vec<&str>> = vec![
        vec!["H", "HH", "k", "kk", "h", "hh", "K", "KK", "HHH"],
        vec!["a", "aa", "aaa", "aaaa", "aaaaa", "b", "bbb", "bbbb", "bbbbb"],
        vec!["m", "mm"],
        vec!["s", "ss"],
        vec!["n", "nn", "nnn", "nnnn", "nnnnn", "nnnnnn"],
        vec!["X", "XX", "XXX", "XXXX", "XXXXX", "x", "xx", "xxx", "xxxx", "xxxxx", "XXXXXX"],
    ];
    let mut groups: Vec<&Vec<&str>> = Vec::new();
    if ty != "time" {
        groups.extend(date_fields.iter());
    }
    if ty != "date" {
        groups.extend(time_fields.iter());
    }
    // a random subset in random order
    let mut chosen: Vec<&str> = Vec::new();
    for g in groups {
        if rng.chance(2, 3) {
            chosen.push(*rng.pick(g));
        }
    }
    if chosen.is_empty() {
        chosen.push(if ty == "time" { "HH" } else { "yyyy" });
    }
    for i in (1..chosen.len()).rev() {
        let j = rng.below(i as u64 + 1) as usize;
        chosen.swap(i, j);
    }
    const SEPS: [&str; 16] = ["-", "/", ":", ".", " ", ", ", "'T'", "' at '", "'o''clock '", "_", "年", "·", " → ", "é", "'日'", "(#)"];
    let mut p = String::new();
    if rng.chance(1, 6) {
        p.push_str(*rng.pick(&SEPS));
    }
    for (i, f) in chosen.iter().enumerate() {
        if i > 0 {
            if rng.chance(9, 10) {
                p.push_str(*rng.pick(&SEPS));
            }
        }
        p.push_str(f);
    }
    if rng.chance(1, 6) {
        p.push_str(*rng.pick(&SEPS));
    }
    p
}

pub fn record(args: &[String]) {
    let scenario = arg_value(args, "--scenario").expect("--scenario");
    let out = arg_value(args, "--out").expect("--out");
    let n: u64 = arg_value(args, "--n").and_then(|x| x.parse().ok()).unwrap_or(5000);
    let mut s = crate::sessions::Session::new(&out, seed_from_env());
    let mut i = 0u64;
    while i < n {
        let ty = *s.rng.pick(&["dt", "dt", "date", "time"]);
        let mut ev = match scenario.as_str() {
            "text11" => {
                let val = rand_value(&mut s, ty);
                let p = rand_pattern(&mut s.rng, ty);
                json!({"op": "format", "val": val, "p": chars(&p)})
            }
            "text12" => {
                let mut val = rand_value(&mut s, ty);
                // offsets the zone symbols can carry; moderate years so that y..yyyy stay readable
                if ty != "date" && s.rng.chance(2, 3) {
                    let o = val["off"].as_i64().unwrap_or(0);
                    val["off"] = json!(o - o % 60);
                }
                if ty != "time" && s.rng.chance(3, 4) {
                    val["dn"] = json!(s.rng.range_i64(-1_500_000, 4_000_000));
                }
                let p = rand_grammar_pattern(&mut s.rng, ty);
                json!({"op": "roundtrip", "val": val, "p": chars(&p)})
            }
            "text13" => {
                let mut val = rand_value(&mut s, "dt");
                val["dn"] = json!(s.rng.range_i64(0, 3_652_058)); // years 1..=9999
                let o = val["off"].as_i64().unwrap_or(0);
                val["off"] = json!(o - o % 60);
                let prec = *s.rng.pick(&[0u64, 2, 3, 6, 9]);
                json!({"op": "rfc_write", "val": val, "prec": prec})
            }
            "text14" => {
                // hostile (input, pattern) pairs: grammar-aware and mutational
                const AL: [&str; 16] = ["0", "7", "9", "-", "+", "a", "Z", "T", ":", ".", " ", "'", "é", "日", "\u{0}", "/"];
                let mut text = |rng: &mut Rng, n: u64| -> String {
                    let k = rng.below(n + 1);
                    (0..k).map(|_| *rng.pick(&AL)).collect::<String>()
                };
                match s.rng.below(6) {
                    0 | 1 => {
                        // a well-formed text with one mutation, against the pattern that produced it
                        let val = rand_value(&mut s, ty);
                        let p = if s.rng.chance(1, 2) { rand_grammar_pattern(&mut s.rng, ty) } else { rand_pattern(&mut s.rng, ty) };
                        let v = val_from_json(&val);
                        let base = match fmt_val(&v, &p) {
                            Value::Array(a) => a.iter().map(|c| c.as_str().unwrap_or("").to_string()).collect::<Vec<_>>(),
                            _ => Vec::new(),
                        };
                        let mut t = base.clone();
                        if !t.is_empty() {
                            let i = s.rng.below(t.len() as u64) as usize;
                            match s.rng.below(4) {
                                0 => { t.remove(i); }
                                1 => t[i] = s.rng.pick(&AL).to_string(),
                                2 => t.insert(i, s.rng.pick(&AL).to_string()),
                                _ => t.truncate(i),
                            }
                        }
                        json!({"op": "parse_any", "ty": ty, "s": chars(&t.concat()), "p": chars(&p)})
                    }
                    2 => {
                        let p = { let mut q = rand_pattern(&mut s.rng, ty); if s.rng.chance(1, 2) { q.push_str(&text(&mut s.rng, 3)); } q };
                        let t = text(&mut s.rng, 12);
                        json!({"op": "parse_any", "ty": ty, "s": chars(&t), "p": chars(&p)})
                    }
                    3 => {
                        let val = rand_value(&mut s, ty);
                        let mut p = rand_pattern(&mut s.rng, ty);
                        p.push_str(&text(&mut s.rng, 4));
                        json!({"op": "format_any", "val": val, "p": chars(&p)})
                    }
                    4 => {
                        let t = text(&mut s.rng, 30);
                        let op = *s.rng.pick(&["rfc_any", "fromstr_any", "serde_any", "cron_any"]);
                        json!({"op": op, "ty": ty, "s": chars(&t)})
                    }
                    _ => {
                        // an RFC 3339 text with one mutation
                        let mut val = rand_value(&mut s, "dt");
                        val["dn"] = json!(s.rng.range_i64(0, 3_652_058));
                        let base: Vec<char> = val_from_json(&val).dt().format_rfc3339(prec_of(*s.rng.pick(&[0u64, 3, 9]))).chars().collect();
                        let mut t: Vec<String> = base.iter().map(|c| c.to_string()).collect();
                        let i = s.rng.below(t.len() as u64) as usize;
                        match s.rng.below(4) {
                            0 => { t.remove(i); }
                            1 => t[i] = s.rng.pick(&AL).to_string(),
                            2 => t.insert(i, s.rng.pick(&AL).to_string()),
                            _ => t.truncate(i),
                        }
                        let op = *s.rng.pick(&["rfc_any", "fromstr_any", "serde_any"]);
                        json!({"op": op, "ty": "dt", "s": chars(&t.concat())})
                    }
                }
            }
            _ => {
                // text20
                let mut val = rand_value(&mut s, ty);
                let op = *s.rng.pick(&["display", "fromstr", "serde"]);
                if ty == "dt" && op == "serde" {
                    val["dn"] = json!(s.rng.range_i64(0, 3_652_058));
                    let o = val["off"].as_i64().unwrap_or(0);
                    val["off"] = json!(o - o % 60);
                }
                json!({"op": op, "val": val})
            }
        };
        let r = exec(&ev);
        if let (Some(e), Some(rm)) = (ev.as_object_mut(), r.as_object()) {
            for (k, v) in rm {
                e.insert(k.clone(), v.clone());
            }
            e.insert("i".into(), json!(i));
        }
        s.out.emit(&ev);
        i += 1;
    }
    let lines = s.out.finish();
    println!("{}", json!({"events": lines}));
}

/// Channel A for the text properties: executes TLC-generated inputs and writes one observation
/// per input (the input record extended by what the real code returned) for Trace_Text.
pub fn observe(args: &[String]) {
    let cases = read_ndjson(&arg_value(args, "--cases").expect("--cases"));
    let out = arg_value(args, "--out").expect("--out");
    let mut w = NdjsonOut::create(&out);
    for (i, c) in cases.iter().enumerate() {
        watch(|| json!({"case": c}).to_string());
        let r = match guarded(|| exec(c)) {
            Outcome::Ok(r) => {
                unwatch();
                r
            }
            Outcome::Panic(m) => {
                eprintln!("harness error: {} in {}", m, c);
                std::process::exit(2);
            }
        };
        if r["k"] == "unknown-op" {
            eprintln!("harness error: unknown op in {}", c);
            std::process::exit(2);
        }
        let mut ev = c.clone();
        if let (Some(e), Some(rm)) = (ev.as_object_mut(), r.as_object()) {
            for (k, v) in rm {
                e.insert(k.clone(), v.clone());
            }
            e.insert("i".into(), json!(i));
        }
        w.emit(&ev);
    }
    let lines = w.finish();
    println!("{}", json!({"events": lines}));
}

fn all_strings(alphabet: &[String], maxlen: usize) -> Vec<String> {
    let mut out = vec![String::new()];
    let mut layer = vec![String::new()];
    for _ in 0..maxlen {
        let mut next = Vec::with_capacity(layer.len() * alphabet.len());
        for s in &layer {
            for a in alphabet {
                let mut t = s.clone();
                t.push_str(a);
                next.push(t);
            }
        }
        out.extend(next.iter().cloned());
        layer = next;
    }
    out
}

fn alphabet_of(c: &Value) -> Vec<String> {
    c["alphabet"].as_array().unwrap().iter().map(|x| x.as_str().unwrap().to_string()).collect()
}

/// C14: expands the TLC-specified families exhaustively and classifies every outcome.
/// Writes the failing (panicking / invalid-Ok) inputs; prints counts per family.
pub fn families(args: &[String]) {
    let cases = read_ndjson(&arg_value(args, "--cases").expect("--cases"));
    let out = arg_value(args, "--out").expect("--out");
    let mut w = NdjsonOut::create(&out);
    let mut total = 0u64;
    let mut classes = std::collections::BTreeMap::new();
    let mut samples: Vec<Value> = Vec::new();
    let mut run = |c: Value, w: &mut NdjsonOut, total: &mut u64, classes: &mut std::collections::BTreeMap<String, u64>, samples: &mut Vec<Value>| {
        let o = match guarded(|| run_case(&c)) {
            Outcome::Ok(o) => o,
            Outcome::Panic(m) => json!({"k": "panic", "msg": chars(&m), "where": "harness"}),
        };
        *total += 1;
        let k = o["k"].as_str().unwrap_or("?").to_string();
        *classes.entry(k.clone()).or_insert(0) += 1;
        if k == "panic" || k == "invalid-ok" {
            w.emit(&json!({"case": c, "observed": o}));
        } else if samples.len() < 4 && *total % 50_021 == 1 {
            samples.push(json!({"case": c, "observed": o}));
        }
    };
    for f in &cases {
        // the deadline is per family (millions of cases per second): a call that does not return stops the run
        watch(|| json!({"family": f}).to_string());
        match gs(f, "op") {
            "family_symbol" => {
                let ty = gs(f, "ty");
                let p = gs(f, "sym").repeat(f["w"].as_u64().unwrap() as usize);
                for s in all_strings(&alphabet_of(f), f["maxlen"].as_u64().unwrap() as usize) {
                    run(json!({"op": "parse_any", "ty": ty, "s": chars(&s), "p": chars(&p)}), &mut w, &mut total, &mut classes, &mut samples);
                }
            }
            "family_patterns" => {
                let ty = gs(f, "ty");
                let val = match ty {
                    "date" => json!({"ty": "date", "dn": 738_276}),
                    "time" => json!({"ty": "time", "sod": 45_296, "ns": 123_456_789, "off": 3600}),
                    _ => json!({"ty": "dt", "dn": 738_276, "sod": 45_296, "ns": 123_456_789, "off": -19_800}),
                };
                let inputs: Vec<String> = f["inputs"].as_array().unwrap().iter().map(unchars).collect();
                for p in all_strings(&alphabet_of(f), f["maxlen"].as_u64().unwrap() as usize) {
                    run(json!({"op": "format_any", "val": val, "p": chars(&p)}), &mut w, &mut total, &mut classes, &mut samples);
                    for s in &inputs {
                        run(json!({"op": "parse_any", "ty": ty, "s": chars(s), "p": chars(&p)}), &mut w, &mut total, &mut classes, &mut samples);
                    }
                }
            }
            "family_rfc" | "family_cron" => {
                // every truncation, every single-character substitution / insertion / deletion
                let base: Vec<String> = f["base"].as_array().unwrap().iter().map(|x| x.as_str().unwrap().to_string()).collect();
                let al = alphabet_of(f);
                let op = if gs(f, "op") == "family_rfc" { "rfc_any" } else { "cron_any" };
                let mut variants: Vec<String> = Vec::new();
                for n in 0..=base.len() {
                    variants.push(base[..n].concat());
                    variants.push(base[n..].concat());
                }
                for i in 0..base.len() {
                    let mut d = base.clone();
                    d.remove(i);
                    variants.push(d.concat());
                    for a in &al {
                        let mut t = base.clone();
                        t[i] = a.clone();
                        variants.push(t.concat());
                        let mut u = base.clone();
                        u.insert(i, a.clone());
                        variants.push(u.concat());
                    }
                }
                // byte-length-preserving substitutions: two (three) single-byte characters replaced by one
                // two-byte (three-byte) character, so that byte offsets stay plausible but fall inside a character
                for i in 0..base.len() {
                    if i + 2 <= base.len() {
                        let mut t = base.clone();
                        t.splice(i..i + 2, ["é".to_string()]);
                        variants.push(t.concat());
                    }
                    if i + 3 <= base.len() {
                        let mut t = base.clone();
                        t.splice(i..i + 3, ["日".to_string()]);
                        variants.push(t.concat());
                    }
                }
                for v in variants {
                    run(json!({"op": op, "s": chars(&v)}), &mut w, &mut total, &mut classes, &mut samples);
                    if op == "rfc_any" {
                        run(json!({"op": "fromstr_any", "ty": "dt", "s": chars(&v)}), &mut w, &mut total, &mut classes, &mut samples);
                        run(json!({"op": "serde_any", "ty": "dt", "s": chars(&v)}), &mut w, &mut total, &mut classes, &mut samples);
                    }
                }
            }
            "family_fromstr" => {
                let ty = gs(f, "ty");
                for s in all_strings(&alphabet_of(f), f["maxlen"].as_u64().unwrap() as usize) {
                    run(json!({"op": "fromstr_any", "ty": ty, "s": chars(&s)}), &mut w, &mut total, &mut classes, &mut samples);
                    run(json!({"op": "serde_any", "ty": ty, "s": chars(&s)}), &mut w, &mut total, &mut classes, &mut samples);
                }
            }
            "parse_any" | "format_any" | "rfc_any" | "fromstr_any" | "serde_any" | "cron_any" => {
                // a single case written out by the specification
                run(f.clone(), &mut w, &mut total, &mut classes, &mut samples);
            }
            "family_long" => {
                let ty = gs(f, "ty");
                let val = match ty {
                    "date" => json!({"ty": "date", "dn": 738_276}),
                    "time" => json!({"ty": "time", "sod": 45_296, "ns": 123_456_789, "off": 3600}),
                    _ => json!({"ty": "dt", "dn": 738_276, "sod": 45_296, "ns": 123_456_789, "off": -19_800}),
                };
                for sym in f["syms"].as_array().unwrap() {
                    for len in f["lens"].as_array().unwrap() {
                        let n = len.as_u64().unwrap() as usize;
                        let p = sym.as_str().unwrap().repeat(n);
                        run(json!({"op": "format_any", "val": val, "p": chars(&p)}), &mut w, &mut total, &mut classes, &mut samples);
                        run(json!({"op": "parse_any", "ty": ty, "s": chars("2022"), "p": chars(&p)}), &mut w, &mut total, &mut classes, &mut samples);
                        run(json!({"op": "parse_any", "ty": ty, "s": chars(&"1".repeat(n)), "p": chars(&p)}), &mut w, &mut total, &mut classes, &mut samples);
                    }
                }
            }
            "family_longtok" => {
                for ch in f["chars"].as_array().unwrap() {
                    for len in f["lens"].as_array().unwrap() {
                        let tok = ch.as_str().unwrap().repeat(len.as_u64().unwrap() as usize);
                        // cron: the token as each of the five fields, as a step, inside a list and a range
                        for k in 0..5 {
                            for shape in ["{}", "*/{}", "1,{}", "1-{}", "{}-2"] {
                                let mut fields = vec!["*".to_string(); 5];
                                fields[k] = shape.replace("{}", &tok);
                                run(json!({"op": "cron_any", "s": chars(&fields.join(" "))}), &mut w, &mut total, &mut classes, &mut samples);
                            }
                        }
                        // pattern-driven parsing: the token where every symbol expects its value, at several widths
                        for ty in ["date", "time", "dt"] {
                            for sym in ["y", "M", "d", "D", "e", "G", "q", "w", "H", "h", "a", "b", "n", "X", "x"] {
                                for wd in [1usize, 3, 4, 5, 8] {
                                    let p = sym.repeat(wd);
                                    run(json!({"op": "parse_any", "ty": ty, "s": chars(&tok), "p": chars(&p)}), &mut w, &mut total, &mut classes, &mut samples);
                                    run(json!({"op": "parse_any", "ty": ty, "s": chars(&format!("1{}", tok)), "p": chars(&p)}), &mut w, &mut total, &mut classes, &mut samples);
                                }
                            }
                            run(json!({"op": "fromstr_any", "ty": ty, "s": chars(&tok)}), &mut w, &mut total, &mut classes, &mut samples);
                            run(json!({"op": "serde_any", "ty": ty, "s": chars(&tok)}), &mut w, &mut total, &mut classes, &mut samples);
                        }
                        run(json!({"op": "rfc_any", "ty": "dt", "s": chars(&format!("2022-05-02T15:30:20{}", tok))}), &mut w, &mut total, &mut classes, &mut samples);
                    }
                }
            }
            "family_nines" => {
                let ty = gs(f, "ty");
                let p = unchars(&f["p"]);
                let vals = match ty {
                    "date" => vec![json!({"ty": "date", "dn": 3_652_058}), json!({"ty": "date", "dn": 738_276})],
                    "time" => vec![json!({"ty": "time", "sod": 86_399, "ns": 999_999_999, "off": 0}), json!({"ty": "time", "sod": 0, "ns": 0, "off": -3600})],
                    _ => vec![json!({"ty": "dt", "dn": 3_652_058, "sod": 86_399, "ns": 999_999_999, "off": 0}),
                              json!({"ty": "dt", "dn": 738_276, "sod": 43_200, "ns": 5, "off": 3600})],
                };
                for val in vals {
                    let base = match fmt_val(&val_from_json(&val), &p) {
                        Value::Array(a) => a.iter().map(|c| c.as_str().unwrap_or("").to_string()).collect::<Vec<_>>(),
                        _ => continue,
                    };
                    let digit = |c: &String| c.len() == 1 && c.as_bytes()[0].is_ascii_digit();
                    let mut variants: Vec<Vec<String>> = vec![base.clone()];
                    variants.push(base.iter().map(|c| if digit(c) { "9".to_string() } else { c.clone() }).collect());
                    variants.push(base.iter().map(|c| if digit(c) { "0".to_string() } else { c.clone() }).collect());
                    for i in 0..base.len() {
                        if digit(&base[i]) {
                            let mut t = base.clone();
                            t[i] = "9".to_string();
                            variants.push(t);
                        }
                    }
                    for v in variants {
                        run(json!({"op": "parse_any", "ty": ty, "s": chars(&v.concat()), "p": chars(&p)}), &mut w, &mut total, &mut classes, &mut samples);
                    }
                }
            }
            other => {
                eprintln!("harness error: unknown family {}", other);
                std::process::exit(2);
            }
        }
    }
    unwatch();
    w.finish();
    println!("{}", json!({"cases": total, "classes": classes, "families": cases.len(), "samples": samples}));
}
