//! Construction of values through the public API and projection of results back to the
//! abstract state of the specification (representation only, no expected values).
//!
//! Abstract states:  Date = day number dn (days since 0001-01-01)
//!                   DateTime = (dn, sod, ns, off): UTC day, second of day, nanosecond, offset s
//!                   Time = (nod wide: stored nanoseconds, off)

use crate::util::*;
use astrolabe::errors::AstrolabeError;
use astrolabe::{Date, DateTime, DateUtilities, Offset, OffsetUtilities, Time, TimeUtilities};
use serde_json::{json, Value};

pub const EPOCH_DN: i64 = 719_162;

pub fn ts_of_dn(dn: i64) -> i64 {
    (dn - EPOCH_DN) * 86_400
}

pub fn date_at(dn: i64) -> Date {
    Date::from_timestamp(ts_of_dn(dn))
}

pub fn dt_at(dn: i64, sod: i64, ns: u32, off: i32) -> DateTime {
    let base = DateTime::from_timestamp(ts_of_dn(dn) + sod);
    let base = if ns != 0 { base.add_nanos(ns) } else { base };
    if off == 0 {
        return base;
    }
    // set_offset refuses a value whose local reading leaves the range (first / last day).  Such values are
    // nevertheless obtainable through the API - by arithmetic on a value that carries the offset - so they are
    // built the same way: the offset is attached one day further inside the range, then the day is added back.
    match crate::util::guarded(|| base.set_offset(Offset::Fixed(off))) {
        crate::util::Outcome::Ok(d) => d,
        crate::util::Outcome::Panic(_) => {
            if off > 0 {
                base.sub_days(1).set_offset(Offset::Fixed(off)).add_days(1)
            } else {
                base.add_days(1).set_offset(Offset::Fixed(off)).sub_days(1)
            }
        }
    }
}

pub fn time_at(sod: u32, ns: u32, off: i32) -> Time {
    let t = Time::from_nanos(sod as u64 * 1_000_000_000 + ns as u64).unwrap();
    if off != 0 {
        t.set_offset(Offset::Fixed(off))
    } else {
        t
    }
}

pub fn proj_date(d: &Date) -> Value {
    let ts = d.timestamp();
    let dn = ts.div_euclid(86_400) + EPOCH_DN;
    let rem = ts.rem_euclid(86_400);
    if rem == 0 {
        json!({"k": "ok", "dn": dn})
    } else {
        json!({"k": "ok", "dn": dn, "rem": rem})
    }
}

pub fn proj_dt(d: &DateTime) -> Value {
    let ts = d.timestamp();
    // the sub-second part is read at offset 0: nano() of the value itself goes through the local reading, which
    // is not representable for a value on the first / last day whose offset points out of the range
    let ns = d.set_offset(Offset::Fixed(0)).nano();
    json!({"k": "ok", "dn": ts.div_euclid(86_400) + EPOCH_DN, "sod": ts.rem_euclid(86_400),
           "ns": ns, "off": d.get_offset().resolve()})
}

/// Every reading of `d` the API offers beyond timestamp/nano/offset, as one JSON value; each reading is
/// taken under its own guard so that a panic is an observation like any other.
fn readings(d: &DateTime) -> Value {
    use crate::util::{guarded, Outcome};
    fn g<T: serde::Serialize>(f: impl FnOnce() -> T) -> Value {
        match guarded(f) {
            Outcome::Ok(v) => serde_json::to_value(v).unwrap_or(Value::Null),
            Outcome::Panic(_) => json!("panic"),
        }
    }
    let partner = DateTime::from_timestamp(949_320_000); // 2000-01-31T12:00:00Z
    let basic = |x: DateTime| {
        let ts = x.timestamp();
        (ts, x.nano(), x.get_offset().resolve())
    };
    json!([
        g(|| d.as_ymdhms()),
        g(|| Date::from(d).timestamp()),
        g(|| { let t = Time::from(d); (t.as_nanos().to_string(), t.get_offset().resolve()) }),
        g(|| (d.years_since(&partner), d.months_since(&partner), partner.months_since(d))),
        g(|| (d.days_since(&partner), d.hours_since(&partner), d.nanos_since(&partner).to_string())),
        g(|| d.format("yyyy-MM-dd HH:mm:ss.nnnnn xxxxx e D w q G a")),
        g(|| d.format_rfc3339(astrolabe::Precision::Nanos)),
        g(|| d.to_string()),
        g(|| (d.year(), d.month(), d.day(), d.day_of_year(), d.weekday(), d.hour(), d.minute(), d.second())),
        g(|| basic(d.set_offset(Offset::Fixed(19_800)))),
        g(|| basic(d.as_offset(Offset::Fixed(-3_600)))),
        g(|| d.set_offset(Offset::Fixed(-7_200)).set_day(1).map(basic).map_err(|e| e.to_string())),
        g(|| d.set_offset(Offset::Fixed(7_200)).set_hour(23).map(basic).map_err(|e| e.to_string())),
        g(|| d.set_day(15).map(basic).map_err(|e| e.to_string())),
        g(|| d.set_minute(0).map(basic).map_err(|e| e.to_string())),
        g(|| basic(d.add_days(1))),
        g(|| basic(d.sub_nanos(1))),
        g(|| basic(d.add_months(1))),
        g(|| basic(d.clear_until_hour())),
        g(|| basic(d.clear_until_day())),
        g(|| basic(d.set_time(Time::from_hms(1, 2, 3).unwrap()))),
    ])
}

/// DateTime projection incl. the canonical-representation observation: all readings of `d` equal the
/// readings of a value rebuilt from (timestamp, nanosecond, offset) through the public constructors, and
/// the two compare equal.
pub fn proj_dt_full(d: &DateTime) -> Value {
    let mut p = proj_dt(d);
    let canon = dt_at(p["dn"].as_i64().unwrap(), p["sod"].as_i64().unwrap(), p["ns"].as_u64().unwrap() as u32,
                      p["off"].as_i64().unwrap() as i32);
    let eqc = canon == *d && *d == canon && canon.cmp(d) == std::cmp::Ordering::Equal && readings(d) == readings(&canon);
    p["eqc"] = json!(eqc);
    if matches!(d.get_offset(), Offset::Local) {
        p["loc"] = json!(true);
    }
    p
}

pub fn proj_time(t: &Time) -> Value {
    json!({"k": "ok", "nod": wide(t.as_nanos()), "off": t.get_offset().resolve()})
}

pub fn err_value(e: &AstrolabeError) -> Value {
    match e {
        AstrolabeError::OutOfRange(_) => json!({"k": "err", "v": "OutOfRange"}),
        AstrolabeError::InvalidFormat(_) => json!({"k": "err", "v": "InvalidFormat"}),
    }
}

pub fn err_value_msg(e: &AstrolabeError) -> Value {
    let mut v = err_value(e);
    v["msg"] = chars(&e.to_string());
    v
}

pub fn panic_value() -> Value {
    json!({"k": "panic"})
}

pub fn res_date(r: Result<Date, AstrolabeError>) -> Value {
    match r {
        Ok(d) => proj_date(&d),
        Err(e) => err_value(&e),
    }
}

pub fn res_dt(r: Result<DateTime, AstrolabeError>) -> Value {
    match r {
        Ok(d) => proj_dt(&d),
        Err(e) => err_value(&e),
    }
}

pub fn res_time(r: Result<Time, AstrolabeError>) -> Value {
    match r {
        Ok(d) => proj_time(&d),
        Err(e) => err_value(&e),
    }
}

pub fn gi(v: &Value, k: &str) -> i64 {
    v[k].as_i64().unwrap_or_else(|| panic!("case field {} missing in {}", k, v))
}
pub fn gu32(v: &Value, k: &str) -> u32 {
    v[k].as_u64().unwrap_or_else(|| panic!("case field {} missing in {}", k, v)) as u32
}
pub fn gs<'a>(v: &'a Value, k: &str) -> &'a str {
    v[k].as_str().unwrap_or_else(|| panic!("case field {} missing in {}", k, v))
}

/// A wide integer `{"neg":..,"mag":[..]}` back to i128 (inputs generated by TLC).
pub fn unwide(v: &Value) -> i128 {
    let mut x: i128 = 0;
    for l in v["mag"].as_array().unwrap().iter().rev() {
        x = x * 1000 + l.as_i64().unwrap() as i128;
    }
    if v["neg"].as_bool().unwrap() {
        -x
    } else {
        x
    }
}

/// chars array -> String
pub fn unchars(v: &Value) -> String {
    v.as_array()
        .map(|a| a.iter().map(|c| c.as_str().unwrap_or("")).collect::<String>())
        .unwrap_or_default()
}
