//! Conformance channel A: replay of TLC-generated cases.  Each case names an operation, its
//! arguments and the list `exp` of outcomes the specification allows; the observed outcome is
//! projected to the same shape and must be a member of `exp`.

use crate::model::*;
use crate::util::*;
use astrolabe::{Date, DateTime, DateUtilities};
use serde_json::{json, Value};

fn read_obs(ymd: (i32, u32, u32), wd: u8, doy: u32) -> Value {
    json!({"k": "ok", "ymd": [ymd.0, ymd.1, ymd.2], "wd": wd, "doy": doy})
}

pub fn run_case(c: &Value) -> Value {
    let op = gs(c, "op");
    match op {
        "c_date_from_ymd" => res_date(Date::from_ymd(gi(c, "y") as i32, gu32(c, "m"), gu32(c, "d"))),
        "c_dt_from_ymd" => {
            let r = DateTime::from_ymd(gi(c, "y") as i32, gu32(c, "m"), gu32(c, "d"));
            // a DateTime built from a date is midnight UTC: project to the day only if so
            match r {
                Ok(d) => {
                    let p = proj_dt(&d);
                    if p["sod"] == 0 && p["ns"] == 0 && p["off"] == 0 {
                        json!({"k": "ok", "dn": p["dn"]})
                    } else {
                        p
                    }
                }
                Err(e) => err_value(&e),
            }
        }
        "c_date_set_doy" => res_date(date_at(gi(c, "base")).set_day_of_year(gu32(c, "n"))),
        "c_dt_set_doy" => {
            let base = dt_at(gi(c, "base"), 45_296, 789, 0);
            match base.set_day_of_year(gu32(c, "n")) {
                Ok(d) => {
                    let p = proj_dt(&d);
                    if p["sod"] == 45_296 && p["ns"] == 789 && p["off"] == 0 {
                        json!({"k": "ok", "dn": p["dn"]})
                    } else {
                        p
                    }
                }
                Err(e) => err_value(&e),
            }
        }
        "c_date_set" | "c_dt_set" => {
            // a (year, month, day) triple constructed through a setter: the receiver supplies the other fields
            let v = gi(c, "v");
            let f = gs(c, "f");
            if op == "c_date_set" {
                let b = date_at(gi(c, "base"));
                res_date(match f {
                    "year" => b.set_year(v as i32),
                    "month" => b.set_month(v as u32),
                    _ => b.set_day(v as u32),
                })
            } else {
                let b = dt_at(gi(c, "base"), 45_296, 789, 0);
                let r = match f {
                    "year" => b.set_year(v as i32),
                    "month" => b.set_month(v as u32),
                    _ => b.set_day(v as u32),
                };
                match r {
                    Ok(d) => {
                        let p = proj_dt(&d);
                        if p["sod"] == 45_296 && p["ns"] == 789 && p["off"] == 0 {
                            json!({"k": "ok", "dn": p["dn"]})
                        } else {
                            p
                        }
                    }
                    Err(e) => err_value(&e),
                }
            }
        }
        "c_date_read" => {
            let d = date_at(gi(c, "dn"));
            read_obs(d.as_ymd(), d.weekday(), d.day_of_year())
        }
        "c_dt_read" => {
            let d = dt_at(gi(c, "dn"), 86_399, 999_999_999, 0);
            read_obs(d.as_ymd(), d.weekday(), d.day_of_year())
        }
        "cron_parse" | "cron_hist" => crate::cron::run_case(c),
        "tz_lookup" | "tz_hostile" => crate::tz::run_case(c),
        "format" | "roundtrip" | "rfc_write" | "rfc_read" | "display" | "fromstr" | "serde" | "parse_any" | "format_any"
        | "rfc_any" | "fromstr_any" | "serde_any" | "cron_any" => crate::text::run_case(c),
        _ => {
            // every other operation: operands given as abstract values, executed by ops::exec
            let a = crate::ops::val_from_json(&c["a"]);
            let b = crate::ops::val_from_json(&c["b"]);
            crate::ops::exec_guarded(op, &a, &b, c).res
        }
    }
}

pub fn main(args: &[String]) {
    let cases = read_ndjson(&arg_value(args, "--cases").expect("--cases"));
    let out = arg_value(args, "--out").expect("--out");
    let mut w = NdjsonOut::create(&out);
    let mut mismatches = 0u64;
    let mut panics = 0u64;
    let mut samples: Vec<Value> = Vec::new();
    // --fresh-threads: every case is also executed as the first call of a new thread (no thread-local
    // history); a different outcome there is reported as the observation
    let fresh = args.iter().any(|a| a == "--fresh-threads");
    for (i, c) in cases.iter().enumerate() {
        watch(|| json!({"case": c}).to_string());
        let mut obs = match guarded(|| run_case(c)) {
            Outcome::Ok(v) => v,
            Outcome::Panic(msg) => {
                panics += 1;
                json!({"k": "panic", "msg": msg})
            }
        };
        if fresh {
            let cc = c.clone();
            let o2 = std::thread::spawn(move || match guarded(|| run_case(&cc)) {
                Outcome::Ok(v) => v,
                Outcome::Panic(msg) => json!({"k": "panic", "msg": msg}),
            })
            .join()
            .unwrap_or_else(|_| json!({"k": "panic", "msg": "thread"}));
            if o2 != obs {
                obs = json!({"k": "history-dependent", "in_sequence": obs, "on_a_fresh_thread": o2});
            }
        }
        unwatch();
        if obs["k"] == "unknown-op" {
            eprintln!("unknown op in case {}", c);
            std::process::exit(2);
        }
        let allowed = c["exp"].as_array().expect("exp list");
        let ok = allowed.iter().any(|e| {
            if e["k"] == "any" {
                true
            } else if e["k"] == "panic" {
                obs["k"] == "panic"
            } else if e["k"] == "noncrash" {
                obs["k"] == "ok" || obs["k"] == "err"
            } else {
                json_match(e, &obs)
            }
        });
        if !ok {
            mismatches += 1;
            w.emit(&json!({"i": i, "case": c, "observed": obs}));
        } else if samples.len() < 3 && i % 977 == 0 {
            samples.push(json!({"case": c, "observed": obs}));
        }
    }
    w.finish();
    println!(
        "{}",
        json!({"cases": cases.len(), "mismatches": mismatches, "panics": panics, "samples": samples})
    );
}

/// Equality up to the wildcard string "any" on the expected side (inside arrays/objects).
fn json_match(e: &Value, o: &Value) -> bool {
    match (e, o) {
        (Value::String(s), _) if s == "any" => true,
        (Value::Array(a), Value::Array(b)) => a.len() == b.len() && a.iter().zip(b.iter()).all(|(x, y)| json_match(x, y)),
        (Value::Object(a), Value::Object(b)) => a.len() == b.len() && a.iter().all(|(k, v)| b.get(k).map(|w| json_match(v, w)).unwrap_or(false)),
        _ => e == o,
    }
}
