//! Conformance channel C: exhaustive sweeps of the real code over all 2^32 day numbers, with the
//! TLC-generated 400-year cycle table as oracle.  The only calendar knowledge in this file is
//! "the calendar repeats every 146097 days / 400 years" (module MC_CivilPeriod) - every field
//! value comes from the table by lookup.  `oracle-sample` logs this oracle's answers so that TLC
//! re-checks them against the closed forms on every run.

use crate::util::*;
use astrolabe::{Date, DateTime, DateUtilities};
use serde_json::{json, Value};
use std::collections::BTreeMap;
use std::sync::Arc;

pub const ERA: i64 = 146_097;
pub const EPOCH_DN: i64 = 719_162;

#[derive(Clone, Copy, Default)]
pub struct Row {
    pub yoe: i32,
    pub m: u32,
    pub d: u32,
    pub wd: u32,
    pub doy: u32,
    pub wk: u32,
}

pub struct Oracle {
    rows: Vec<Row>,
    year_start: [i64; 400],
    cum: Vec<[u32; 13]>,  // cum[yoe][m] = days before month m
    mlen: Vec<[u32; 13]>, // mlen[yoe][m]
    ylen: [u32; 400],
}

#[derive(Clone, Copy, Debug, PartialEq)]
pub struct Civil {
    pub y: i32,
    pub m: u32,
    pub d: u32,
    pub wd: u32,
    pub doy: u32,
    pub wk: u32,
    pub ylen: u32,
}

impl Oracle {
    pub fn load(path: &str) -> Self {
        let recs = read_ndjson(path);
        assert_eq!(recs.len() as i64, ERA, "cycle table must have 146097 rows");
        let mut rows = vec![Row::default(); ERA as usize];
        let mut year_start = [0i64; 400];
        let mut cum = vec![[0u32; 13]; 400];
        let mut mlen = vec![[0u32; 13]; 400];
        let mut ylen = [0u32; 400];
        for r in &recs {
            let a = r.as_array().unwrap();
            let g = |i: usize| a[i].as_i64().unwrap();
            let c = g(0) as usize;
            let row = Row {
                yoe: g(1) as i32,
                m: g(2) as u32,
                d: g(3) as u32,
                wd: g(4) as u32,
                doy: g(5) as u32,
                wk: g(6) as u32,
            };
            rows[c] = row;
            let y = row.yoe as usize;
            if row.m == 1 && row.d == 1 {
                year_start[y] = c as i64;
            }
            if row.d == 1 {
                cum[y][row.m as usize] = row.doy - 1;
            }
            if row.d > mlen[y][row.m as usize] {
                mlen[y][row.m as usize] = row.d;
            }
            if row.doy > ylen[y] {
                ylen[y] = row.doy;
            }
        }
        Oracle {
            rows,
            year_start,
            cum,
            mlen,
            ylen,
        }
    }

    #[inline]
    pub fn at(&self, dn: i64) -> Civil {
        let e = dn.div_euclid(ERA);
        let c = dn.rem_euclid(ERA) as usize;
        let r = self.rows[c];
        let astro = 400 * e + r.yoe as i64 + 1;
        let label = if astro <= 0 { astro - 1 } else { astro };
        Civil {
            y: label as i32,
            m: r.m,
            d: r.d,
            wd: r.wd,
            doy: r.doy,
            wk: r.wk,
            ylen: self.ylen[r.yoe as usize],
        }
    }

    fn era_yoe(y: i64) -> Option<(i64, usize)> {
        if y == 0 {
            return None;
        }
        let astro = if y < 0 { y + 1 } else { y };
        let p = astro - 1;
        Some((p.div_euclid(400), p.rem_euclid(400) as usize))
    }

    /// Day number of a (year, month, day) label if that date exists in the calendar (i64: may lie
    /// outside the 32-bit range).
    pub fn dn_of(&self, y: i64, m: u32, d: u32) -> Option<i64> {
        let (e, yoe) = Self::era_yoe(y)?;
        if !(1..=12).contains(&m) || d < 1 || d > self.mlen[yoe][m as usize] {
            return None;
        }
        Some(ERA * e + self.year_start[yoe] + self.cum[yoe][m as usize] as i64 + d as i64 - 1)
    }

    pub fn dn_of_doy(&self, y: i64, n: u32) -> Option<i64> {
        let (e, yoe) = Self::era_yoe(y)?;
        if n < 1 || n > self.ylen[yoe] {
            return None;
        }
        Some(ERA * e + self.year_start[yoe] + n as i64 - 1)
    }
}

fn in_i32(dn: i64) -> bool {
    dn >= i32::MIN as i64 && dn <= i32::MAX as i64
}

#[derive(Default, Clone)]
pub struct Clause {
    pub checked: u64,
    pub bad: u64,
    pub first: Vec<Value>,
    pub classes: BTreeMap<String, u64>,
}

#[derive(Default, Clone)]
pub struct Tally {
    pub clauses: BTreeMap<&'static str, Clause>,
    pub panics: u64,
}

impl Tally {
    #[inline]
    fn ok(&mut self, name: &'static str) {
        self.clauses.entry(name).or_default().checked += 1;
    }
    fn bad(&mut self, name: &'static str, class: String, witness: impl FnOnce() -> Value) {
        let c = self.clauses.entry(name).or_default();
        c.checked += 1;
        c.bad += 1;
        *c.classes.entry(class).or_default() += 1;
        if c.first.len() < 5 {
            c.first.push(witness());
        }
    }
    #[inline]
    fn check(
        &mut self,
        name: &'static str,
        cond: bool,
        class: impl FnOnce() -> String,
        witness: impl FnOnce() -> Value,
    ) {
        if cond {
            self.ok(name)
        } else {
            self.bad(name, class(), witness)
        }
    }
    fn merge(&mut self, other: Tally) {
        self.panics += other.panics;
        for (k, v) in other.clauses {
            let c = self.clauses.entry(k).or_default();
            c.checked += v.checked;
            c.bad += v.bad;
            for (ck, cv) in v.classes {
                *c.classes.entry(ck).or_default() += cv;
            }
            for w in v.first {
                if c.first.len() < 5 {
                    c.first.push(w);
                }
            }
        }
    }
    pub fn to_json(&self) -> Value {
        let mut m = serde_json::Map::new();
        for (k, c) in &self.clauses {
            m.insert(
                k.to_string(),
                json!({"checked": c.checked, "bad": c.bad, "first": c.first, "classes": c.classes}),
            );
        }
        json!({"clauses": m, "panics": self.panics})
    }
}

fn class_of(c: &Civil) -> String {
    format!(
        "era={},leap={},m={}",
        if c.y < 0 { "BC" } else { "AD" },
        c.ylen == 366,
        c.m
    )
}

fn ts_of(dn: i64) -> i64 {
    (dn - EPOCH_DN) * 86_400
}

/// One day: every C01/C02 clause that can be evaluated on a single day number.
fn check_day(o: &Oracle, t: &mut Tally, dn: i64, c01: bool, c02: bool, sampled: bool) {
    let exp = o.at(dn);
    let ts = ts_of(dn);
    let date = Date::from_timestamp(ts);
    let cl = || class_of(&exp);
    if c01 {
        check_day_c01(o, t, dn, &exp, ts, &date, sampled);
    }
    if c02 {
        check_day_c02(t, dn, &exp, ts, &date, sampled);
    }
    let _ = cl;
}

fn check_day_c01(_o: &Oracle, t: &mut Tally, dn: i64, exp: &Civil, ts: i64, date: &Date, with_dt: bool) {
    let exp = *exp;
    let cl = || class_of(&exp);
    let ymd = date.as_ymd();
    t.check("C01.date_as_ymd", ymd == (exp.y, exp.m, exp.d), cl, || {
        json!({"dn": dn, "observed": [ymd.0, ymd.1, ymd.2], "expected": [exp.y, exp.m, exp.d]})
    });
    if with_dt {
        let g = (date.year(), date.month(), date.day());
        t.check("C01.date_getters", g == (exp.y, exp.m, exp.d), cl, || {
            json!({"dn": dn, "observed": [g.0, g.1, g.2], "expected": [exp.y, exp.m, exp.d]})
        });
    }
    t.check("C03.date_timestamp", date.timestamp() == ts, cl, || {
        json!({"dn": dn, "observed": date.timestamp(), "expected": ts})
    });
    // constructing from the label the calendar assigns gives the same day again
    match Date::from_ymd(exp.y, exp.m, exp.d) {
        Ok(back) => t.check("C01.date_from_ymd", back == *date && back.timestamp() == ts, cl, || {
            json!({"dn": dn, "ymd": [exp.y, exp.m, exp.d], "observed_ts": back.timestamp(), "expected_ts": ts})
        }),
        Err(e) => t.bad("C01.date_from_ymd", cl(), || {
            json!({"dn": dn, "ymd": [exp.y, exp.m, exp.d], "observed": format!("Err({})", e)})
        }),
    }
    if with_dt {
        let dt = DateTime::from_timestamp(ts + 86_399);
        let ymd = dt.as_ymd();
        t.check("C01.dt_as_ymd", ymd == (exp.y, exp.m, exp.d), cl, || {
            json!({"dn": dn, "observed": [ymd.0, ymd.1, ymd.2], "expected": [exp.y, exp.m, exp.d]})
        });
        match DateTime::from_ymd(exp.y, exp.m, exp.d) {
            Ok(back) => t.check("C01.dt_from_ymd", back.timestamp() == ts, cl, || {
                json!({"dn": dn, "ymd": [exp.y, exp.m, exp.d], "observed_ts": back.timestamp(), "expected_ts": ts})
            }),
            Err(e) => t.bad("C01.dt_from_ymd", cl(), || {
                json!({"dn": dn, "ymd": [exp.y, exp.m, exp.d], "observed": format!("Err({})", e)})
            }),
        }
    }
}

fn check_day_c02(t: &mut Tally, dn: i64, exp: &Civil, ts: i64, date: &Date, with_fmt: bool) {
    let exp = *exp;
    let cl = || class_of(&exp);
    let with_dt = with_fmt;
    let wd = date.weekday() as u32;
    t.check("C02.date_weekday", wd == exp.wd, cl, || {
        json!({"dn": dn, "observed": wd, "expected": exp.wd})
    });
    let doy = date.day_of_year();
    t.check("C02.date_doy", doy == exp.doy, cl, || {
        json!({"dn": dn, "observed": doy, "expected": exp.doy})
    });
    if with_dt {
        let dt = DateTime::from_timestamp(ts + 86_399);
        t.check(
            "C02.dt_weekday_doy",
            dt.weekday() as u32 == exp.wd && dt.day_of_year() == exp.doy,
            cl,
            || json!({"dn": dn, "observed": [dt.weekday(), dt.day_of_year()], "expected": [exp.wd, exp.doy]}),
        );
    }
    if with_fmt {
        let got = date.format("w q e eeeeeee D");
        let want = format!(
            "{} {} {} {} {}",
            exp.wk,
            (exp.m - 1) / 3 + 1,
            exp.wd + 1,
            (exp.wd + 6) % 7 + 1,
            exp.doy
        );
        t.check("C02.format_w_q_e_D", got == want, cl, || {
            json!({"dn": dn, "pattern": "w q e eeeeeee D", "observed": got, "expected": want})
        });
    }
}

fn run_parallel<F>(lo: i64, hi: i64, chunk: i64, f: F) -> Tally
where
    F: Fn(&mut Tally, i64) + Send + Sync + 'static,
{
    // [lo, hi] inclusive, split into chunks handed to threads through an atomic counter
    let threads = std::thread::available_parallelism().map(|n| n.get()).unwrap_or(8);
    let next = Arc::new(std::sync::atomic::AtomicI64::new(lo));
    let f = Arc::new(f);
    let mut handles = Vec::new();
    for _ in 0..threads {
        let next = next.clone();
        let f = f.clone();
        handles.push(std::thread::spawn(move || {
            let mut t = Tally::default();
            loop {
                let start = next.fetch_add(chunk, std::sync::atomic::Ordering::Relaxed);
                if start > hi {
                    break;
                }
                let end = (start + chunk - 1).min(hi);
                // fast path: whole chunk under one catch_unwind; on a panic redo it item by item
                let mut local = Tally::default();
                let r = guarded(|| {
                    for x in start..=end {
                        f(&mut local, x);
                    }
                });
                match r {
                    Outcome::Ok(()) => t.merge(local),
                    Outcome::Panic(_) => {
                        for x in start..=end {
                            let mut one = Tally::default();
                            match guarded(|| f(&mut one, x)) {
                                Outcome::Ok(()) => t.merge(one),
                                Outcome::Panic(msg) => {
                                    t.panics += 1;
                                    t.bad("panic", "panic".to_string(), || json!({"item": x, "panic": msg}));
                                }
                            }
                        }
                    }
                }
            }
            t
        }));
    }
    let mut total = Tally::default();
    for h in handles {
        total.merge(h.join().unwrap());
    }
    total
}

pub fn main(args: &[String]) {
    let table = arg_value(args, "--table").expect("--table");
    let out = arg_value(args, "--out").expect("--out");
    let what = arg_value(args, "--what").unwrap_or_else(|| "days".into());
    let thorough = args.iter().any(|a| a == "--thorough");
    let o = Arc::new(Oracle::load(&table));
    let started = std::time::Instant::now();
    let mut total = Tally::default();
    let mut space = serde_json::Map::new();

    if what == "days01" || what == "days02" || what == "days" || what == "all" {
        let c01 = what != "days02";
        let c02 = what != "days01";
        // every one of the 2^32 day numbers
        let oo = o.clone();
        let stride: i64 = if thorough { 1 } else { 37 };
        let t = run_parallel(i32::MIN as i64, i32::MAX as i64, 1 << 16, move |t, dn| {
            let sampled = dn.rem_euclid(stride) == 0;
            check_day(&oo, t, dn, c01, c02, sampled);
        });
        total.merge(t);
        space.insert("days".into(), json!({"from": i32::MIN, "to": i32::MAX, "count": 1u64 << 32,
            "datetime_and_format_stride": stride}));
    }
    if what == "triples" || what == "all" {
        // from_ymd over (year, month 0..=13, day 0..=32): accepted iff the date exists and is in range
        let oo = o.clone();
        let ystride: i64 = if thorough { 1 } else { 97 };
        let t = run_parallel(-5_879_612, 5_879_612, 4096, move |t, y| {
            let near_edge = !(-5_879_600..=5_879_600).contains(&y) || (-450..=450).contains(&y);
            if !near_edge && y.rem_euclid(ystride) != 0 {
                return;
            }
            for m in 0u32..=13 {
                for d in 0u32..=32 {
                    let exp = oo.dn_of(y, m, d).filter(|dn| in_i32(*dn));
                    let got = Date::from_ymd(y as i32, m, d);
                    let cl = || format!("era={},m={},d={}", if y < 0 { "BC" } else if y == 0 { "zero" } else { "AD" }, m, d);
                    match (&got, exp) {
                        (Ok(v), Some(dn)) => t.check("C01.triple_value", v.timestamp() == ts_of(dn), cl, || {
                            json!({"ymd": [y, m, d], "observed_ts": v.timestamp(), "expected_ts": ts_of(dn)})
                        }),
                        (Err(astrolabe::errors::AstrolabeError::OutOfRange(_)), None) => t.ok("C01.triple_refused"),
                        (Err(e), None) => t.bad("C01.triple_refused", cl(), || {
                            json!({"ymd": [y, m, d], "observed": format!("Err({:?})", e), "expected": "Err(OutOfRange)"})
                        }),
                        (Ok(v), None) => t.bad("C01.triple_refused", cl(), || {
                            json!({"ymd": [y, m, d], "observed": format!("Ok(ts={})", v.timestamp()), "expected": "Err(OutOfRange)"})
                        }),
                        (Err(e), Some(dn)) => t.bad("C01.triple_value", cl(), || {
                            json!({"ymd": [y, m, d], "observed": format!("Err({})", e), "expected_ts": ts_of(dn)})
                        }),
                    }
                    if m == 7 && (d == 1 || d == 12) {
                        // the same through DateTime
                        let got = DateTime::from_ymd(y as i32, m, d);
                        match (&got, exp) {
                            (Ok(v), Some(dn)) => t.check("C01.dt_triple", v.timestamp() == ts_of(dn), cl, || {
                                json!({"ymd": [y, m, d], "observed_ts": v.timestamp(), "expected_ts": ts_of(dn)})
                            }),
                            (Err(_), None) => t.ok("C01.dt_triple"),
                            _ => t.bad("C01.dt_triple", cl(), || json!({"ymd": [y, m, d], "observed_ok": got.is_ok()})),
                        }
                    }
                }
            }
        });
        total.merge(t);
        space.insert("triples".into(), json!({"years": [-5_879_612, 5_879_612], "months": [0, 13], "days": [0, 32],
            "year_stride_away_from_edges": ystride}));
    }
    if what == "setdoy" || what == "all" {
        // set_day_of_year(n), n in 0..=367, on a date of every year
        let oo = o.clone();
        let ystride: i64 = if thorough { 1 } else { 61 };
        let t = run_parallel(-5_879_611, 5_879_611, 4096, move |t, y| {
            if y == 0 {
                return;
            }
            let near_edge = !(-5_879_600..=5_879_600).contains(&y) || (-450..=450).contains(&y);
            if !near_edge && y.rem_euclid(ystride) != 0 {
                return;
            }
            // a base date inside the year (1 July, or 1 August / 1 June near the range ends)
            let base_m = if y == -5_879_611 { 8 } else if y == 5_879_611 { 6 } else { 7 };
            let base_dn = oo.dn_of(y, base_m, 1).unwrap();
            let base = Date::from_timestamp(ts_of(base_dn));
            let base_dt = DateTime::from_timestamp(ts_of(base_dn) + 45_296);
            for n in 0u32..=367 {
                let exists = oo.dn_of_doy(y, n);
                let exp = exists.filter(|dn| in_i32(*dn));
                let cl = || format!("era={},n={}", if y < 0 { "BC" } else { "AD" }, if n == 0 { "0".into() } else if n >= 365 { n.to_string() } else { "mid".to_string() });
                let got = base.set_day_of_year(n);
                match (&got, exp) {
                    (Ok(v), Some(dn)) => t.check("C02.set_doy_value", v.timestamp() == ts_of(dn), cl, || {
                        json!({"year": y, "n": n, "observed_ts": v.timestamp(), "expected_ts": ts_of(dn)})
                    }),
                    (Err(astrolabe::errors::AstrolabeError::OutOfRange(_)), None) => t.ok("C02.set_doy_refused"),
                    (Ok(v), None) => t.bad("C02.set_doy_refused", cl(), || {
                        json!({"year": y, "n": n, "observed": format!("Ok(ts={})", v.timestamp()), "expected": "Err(OutOfRange)"})
                    }),
                    (Err(e), _) => t.bad("C02.set_doy_value", cl(), || {
                        json!({"year": y, "n": n, "observed": format!("Err({:?})", e), "expected_ts": exp.map(ts_of)})
                    }),
                }
                if n % 9 == 0 || n >= 364 || n <= 1 {
                    let got = base_dt.set_day_of_year(n);
                    match (&got, exp) {
                        (Ok(v), Some(dn)) => t.check("C02.dt_set_doy", v.timestamp() == ts_of(dn) + 45_296, cl, || {
                            json!({"year": y, "n": n, "observed_ts": v.timestamp(), "expected_ts": ts_of(dn) + 45_296})
                        }),
                        (Err(_), None) => t.ok("C02.dt_set_doy"),
                        _ => t.bad("C02.dt_set_doy", cl(), || json!({"year": y, "n": n, "observed_ok": got.is_ok()})),
                    }
                }
            }
        });
        total.merge(t);
        space.insert("setdoy".into(), json!({"years": [-5_879_611, 5_879_611], "n": [0, 367],
            "year_stride_away_from_edges": ystride}));
    }

    if what == "pairs" || what == "all" {
        // History independence of the calendar conversions: the specification makes every reading and every
        // construction a function of its arguments alone.  Calendar landmarks (the first of every month over a span of
        // years that contains the usual epochs: 1 BC-03-01, 0001-01-01, 1601-01-01, 1970-01-01, 2000-03-01) are read and
        // constructed in every ordered pair (a, b) on one thread; the second result must be what the table says for b,
        // whatever was converted just before.
        let (y_lo, y_hi): (i64, i64) = if thorough { (-405, 2805) } else { (-5, 2400) };
        let mut marks: Vec<(i64, Civil)> = Vec::new();
        for y in y_lo..=y_hi {
            if y == 0 {
                continue;
            }
            for m in 1u32..=12 {
                let dn = o.dn_of(y, m, 1).unwrap();
                marks.push((dn, o.at(dn)));
            }
        }
        let n = marks.len() as i64;
        let marks = Arc::new(marks);
        let mm = marks.clone();
        let t = run_parallel(0, n - 1, 4, move |t, i| {
            let (adn, a) = mm[i as usize];
            let ats = ts_of(adn);
            let cl = || "pair".to_string();
            let mut bad_read = 0u64;
            let mut bad_make = 0u64;
            let mut first_read: Option<(i64, (i32, u32, u32))> = None;
            let mut first_make: Option<(i64, i64)> = None;
            for &(bdn, b) in mm.iter() {
                let bts = ts_of(bdn);
                let _ = Date::from_timestamp(ats).as_ymd();
                let got = Date::from_timestamp(bts).as_ymd();
                if got != (b.y, b.m, b.d) {
                    bad_read += 1;
                    first_read.get_or_insert((bdn, got));
                }
                let _ = Date::from_ymd(a.y, a.m, a.d);
                let made = Date::from_ymd(b.y, b.m, b.d).map(|d| d.timestamp()).unwrap_or(i64::MIN);
                if made != bts {
                    bad_make += 1;
                    first_make.get_or_insert((bdn, made));
                }
            }
            let k = mm.len() as u64;
            let c = t.clauses.entry("C01.pair_as_ymd").or_default();
            c.checked += k - bad_read.min(1);
            let c = t.clauses.entry("C01.pair_from_ymd").or_default();
            c.checked += k - bad_make.min(1);
            if let Some((bdn, got)) = first_read {
                t.bad("C01.pair_as_ymd", cl(), || {
                    let b = mm.iter().find(|x| x.0 == bdn).unwrap().1;
                    json!({"first_read_dn": adn, "then_read_dn": bdn, "observed": [got.0, got.1, got.2],
                           "expected": [b.y, b.m, b.d], "pairs_failing_for_this_first": bad_read})
                });
            }
            if let Some((bdn, made)) = first_make {
                t.bad("C01.pair_from_ymd", cl(), || {
                    let b = mm.iter().find(|x| x.0 == bdn).unwrap().1;
                    json!({"first_made": [a.y, a.m, a.d], "then_made": [b.y, b.m, b.d], "observed_ts": made,
                           "expected_ts": ts_of(bdn), "pairs_failing_for_this_first": bad_make})
                });
            }
        });
        total.merge(t);
        space.insert("pairs".into(), json!({"landmarks": n, "years": [y_lo, y_hi], "ordered_pairs": (n as u64) * (n as u64),
            "what": "first of every month; read a then read b, make a then make b"}));
    }

    let mut result = total.to_json();
    result["space"] = Value::Object(space);
    result["wall_s"] = json!(started.elapsed().as_secs_f64());
    std::fs::write(&out, serde_json::to_string_pretty(&result).unwrap()).unwrap();
}

/// Logs, for a stratified set of days, (a) what the table oracle says and (b) what the real code
/// says, as independent events for TLC to judge against the closed forms (module Trace_Civil).
pub fn oracle_sample(args: &[String]) {
    let table = arg_value(args, "--table").expect("--table");
    let out = arg_value(args, "--out").expect("--out");
    let n: u64 = arg_value(args, "--n").and_then(|s| s.parse().ok()).unwrap_or(20_000);
    let o = Oracle::load(&table);
    let mut rng = Rng::new(seed_from_env());
    let mut w = NdjsonOut::create(&out);
    let mut days: Vec<i64> = Vec::new();
    let lo = i32::MIN as i64;
    let hi = i32::MAX as i64;
    for k in 0..400 {
        days.push(lo + k);
        days.push(hi - k);
        days.push(-200 + k);
    }
    // century and era boundaries on both sides
    for e in [-14_699i64, -7000, -5, -1, 0, 1, 4, 5, 7000, 14_698] {
        for c in [0i64, 36_523, 36_524, 36_525, 73_048, 73_049, 109_572, 109_573, 146_096, 59, 60, 365, 366, 1460, 1461] {
            days.push(e * ERA + c);
        }
    }
    while (days.len() as u64) < n {
        match rng.below(4) {
            0 => days.push(rng.range_i64(lo, hi)),
            1 => days.push(rng.range_i64(-800_000, 800_000)),
            2 => days.push(rng.range_i64(EPOCH_DN - 40_000, EPOCH_DN + 40_000)),
            _ => {
                // around a random year boundary
                let y = rng.range_i64(-5_879_000, 5_879_000);
                if let Some(dn) = o.dn_of(if y == 0 { 1 } else { y }, 1, 1) {
                    days.push(dn + rng.range_i64(-4, 4));
                }
            }
        }
    }
    install_silent_panic_hook();
    // explicit items (used by --replay): --days a,b,c  --triples y:m:d,y:m:d  --setdoy y:n,y:n
    if let Some(list) = arg_value(args, "--days") {
        days = list.split(',').filter_map(|x| x.trim().parse::<i64>().ok()).collect();
    }
    let mut i0 = 1_000_000usize;
    if let Some(list) = arg_value(args, "--triples") {
        days.clear();
        for item in list.split(',') {
            let p: Vec<i64> = item.split(':').filter_map(|x| x.trim().parse::<i64>().ok()).collect();
            if p.len() != 3 {
                continue;
            }
            let res = match guarded(|| res_date_ts(Date::from_ymd(p[0] as i32, p[1] as u32, p[2] as u32))) {
                Outcome::Ok(v) => v,
                Outcome::Panic(_) => json!({"k": "panic"}),
            };
            w.emit(&json!({"i": i0, "src": "triple", "dn": 0, "ymd": [p[0], p[1], p[2]], "res": res}));
            i0 += 1;
        }
    }
    if let Some(list) = arg_value(args, "--setdoy") {
        days.clear();
        for item in list.split(',') {
            let p: Vec<i64> = item.split(':').filter_map(|x| x.trim().parse::<i64>().ok()).collect();
            if p.len() != 2 {
                continue;
            }
            let y = p[0];
            let base_m = if y == -5_879_611 { 8 } else if y == 5_879_611 { 6 } else { 7 };
            let base_dn = match o.dn_of(y, base_m, 1) {
                Some(d) => d,
                None => continue,
            };
            let res = match guarded(|| res_date_ts(Date::from_timestamp(ts_of(base_dn)).set_day_of_year(p[1] as u32))) {
                Outcome::Ok(v) => v,
                Outcome::Panic(_) => json!({"k": "panic"}),
            };
            w.emit(&json!({"i": i0, "src": "setdoy", "dn": 0, "year": y, "n": p[1], "res": res}));
            i0 += 1;
        }
    }
    for (i, &dn) in days.iter().enumerate() {
        if !in_i32(dn) {
            continue;
        }
        let c = o.at(dn);
        let back = o.dn_of(c.y as i64, c.m, c.d).unwrap_or(i64::MIN);
        let back_doy = o.dn_of_doy(c.y as i64, c.doy).unwrap_or(i64::MIN);
        w.emit(&json!({"i": i, "src": "oracle", "dn": dn, "ymd": [c.y, c.m, c.d], "wd": c.wd, "doy": c.doy,
            "wk": c.wk, "ylen": c.ylen, "back": back, "back_doy": back_doy}));
        let ts = ts_of(dn);
        let r = guarded(|| {
            let d = Date::from_timestamp(ts);
            let (y, m, dd) = d.as_ymd();
            let f = d.format("w|q|e|eeeeeee|D|ww|qq|DDD|ee|eeeeeeee");
            let back = Date::from_ymd(y, m, dd).map(|b| b.timestamp()).unwrap_or(i64::MIN);
            json!({"i": i, "src": "impl", "dn": dn, "ymd": [y, m, dd], "wd": d.weekday(), "doy": d.day_of_year(),
                "fmt": chars(&f), "back_ts": wide(back), "ts": wide(d.timestamp())})
        });
        match r {
            Outcome::Ok(v) => w.emit(&v),
            Outcome::Panic(msg) => w.emit(&json!({"i": i, "src": "impl", "dn": dn, "panic": chars(&msg)})),
        }
    }
    let lines = w.finish();
    println!("{}", json!({"events": lines}));
}

fn res_date_ts(r: Result<Date, astrolabe::errors::AstrolabeError>) -> Value {
    match r {
        Ok(d) => json!({"k": "ok", "ts": wide(d.timestamp())}),
        Err(astrolabe::errors::AstrolabeError::OutOfRange(_)) => json!({"k": "err", "v": "OutOfRange"}),
        Err(_) => json!({"k": "err", "v": "InvalidFormat"}),
    }
}
