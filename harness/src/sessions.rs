//! Conformance channel B: random, boundary-dense *sessions* on a register file of real astrolabe
//! values.  One ndjson event per returned call (ok, error and panic paths alike).  The trace
//! specification carries the registers itself; the log only carries arguments and observations.

use crate::ops::*;
use crate::util::*;
use serde_json::{json, Map, Value};
use std::collections::HashMap;

pub const MIN_DN: i64 = i32::MIN as i64;
pub const MAX_DN: i64 = i32::MAX as i64;
const NPS: i128 = 1_000_000_000;
const NPD: i128 = 86_400 * NPS;

pub struct Session {
    pub regs: HashMap<&'static str, Val>,
    pub vals: HashMap<&'static str, Value>,
    pub rng: Rng,
    pub out: NdjsonOut,
    pub i: u64,
}

pub const UNITS7: [&str; 7] = ["day", "hour", "minute", "second", "milli", "micro", "nano"];
pub const UNITS6: [&str; 6] = ["hour", "minute", "second", "milli", "micro", "nano"];

pub fn unit_ns(u: &str) -> i128 {
    match u {
        "day" => NPD,
        "hour" => 3600 * NPS,
        "minute" => 60 * NPS,
        "second" => NPS,
        "milli" => 1_000_000,
        "micro" => 1_000,
        _ => 1,
    }
}

impl Session {
    pub fn new(path: &str, seed: u64) -> Self {
        Session { regs: HashMap::new(), vals: HashMap::new(), rng: Rng::new(seed), out: NdjsonOut::create(path), i: 0 }
    }

    pub fn get(&self, r: &str) -> Val {
        *self.regs.get(r).unwrap_or(&Val::None)
    }

    /// Performs one call and logs it.  `dst` receives the returned value when the call returns one.
    pub fn step(&mut self, op: &str, a: &'static str, b: &'static str, dst: Option<&'static str>, args: Value) -> Value {
        let va = self.get(a);
        let vb = self.get(b);
        let mut ev: Map<String, Value> = match args {
            Value::Object(m) => m,
            _ => Map::new(),
        };
        ev.insert("op".into(), json!(op));
        ev.insert("a".into(), json!(a));
        ev.insert("b".into(), json!(b));
        if let Some(d) = dst {
            ev.insert("dst".into(), json!(d));
        }
        let evv = Value::Object(ev);
        let _ = take_last_err();
        watch(|| json!({"session_event": {"i": self.i, "op": op, "e": evv, "aval": self.vals.get(a), "bval": self.vals.get(b)}}).to_string());
        let r = exec_guarded(op, &va, &vb, &evv);
        unwatch();
        if r.res["k"] == "unknown-op" {
            eprintln!("harness error: unknown op {}", op);
            std::process::exit(2);
        }
        if r.res["k"] == "skip" {
            return r.res;
        }
        if let (Some(d), Some(v)) = (dst, r.val) {
            self.regs.insert(d, v);
        }
        let mut ev = match evv {
            Value::Object(m) => m,
            _ => unreachable!(),
        };
        ev.insert("i".into(), json!(self.i));
        ev.insert("res".into(), r.res.clone());
        if let Some(msg) = take_last_err() {
            ev.insert("msg".into(), chars(&msg));
        }
        if let Some(av) = self.vals.get(a) {
            // the abstract value the operand register was loaded with (only while it is still that value)
            ev.insert("aval".into(), av.clone());
        }
        if dst.is_some() {
            if let Some(d) = dst {
                self.vals.remove(d);
            }
        }
        self.i += 1;
        self.out.emit(&Value::Object(ev));
        r.res
    }

    /// Loads a register from an abstract value through the public constructors and logs what the
    /// real value projects to (the specification requires it to be the requested value).
    pub fn init(&mut self, dst: &'static str, val: Value) {
        let mut val = val;
        if val["loc"] == true {
            // a scenario may have edited "off" after the value was drawn: Local resolves to what it resolves to
            val["off"] = json!(astrolabe::Offset::Local.resolve());
        }
        let v = match guarded(|| val_from_json(&val)) {
            Outcome::Ok(v) => v,
            Outcome::Panic(_) => Val::None,
        };
        let res = match guarded(|| v.proj()) {
            Outcome::Ok(p) => p,
            Outcome::Panic(_) => json!({"k": "panic"}),
        };
        self.regs.insert(dst, v);
        if res["k"] == "ok" {
            self.vals.insert(dst, val.clone());
        } else {
            self.vals.remove(dst);
        }
        self.out.emit(&json!({"i": self.i, "op": "init", "dst": dst, "val": val, "res": res}));
        self.i += 1;
    }

    /// `now()` constructors: the system clock is read before and after the call (through std, not
    /// through astrolabe); the specification requires the result to lie between the two readings.
    pub fn step_now(&mut self, op: &str, dst: &'static str) {
        use std::time::{SystemTime, UNIX_EPOCH};
        let read = || {
            let d = SystemTime::now().duration_since(UNIX_EPOCH).unwrap();
            let secs = d.as_secs() as i64;
            json!([secs.div_euclid(86_400) + 719_162, secs.rem_euclid(86_400), d.subsec_nanos()])
        };
        let t0 = read();
        let r = match guarded(|| match op {
            "date_now" => Val::Date(astrolabe::Date::now()),
            "time_now" => Val::Time(astrolabe::Time::now()),
            _ => Val::Dt(astrolabe::DateTime::now()),
        }) {
            Outcome::Ok(v) => {
                self.regs.insert(dst, v);
                v.proj()
            }
            Outcome::Panic(m) => json!({"k": "panic", "msg": chars(&m)}),
        };
        let t1 = read();
        self.vals.remove(dst);
        self.out.emit(&json!({"i": self.i, "op": op, "a": dst, "b": dst, "dst": dst, "t0": t0, "t1": t1, "res": r}));
        self.i += 1;
    }

    // ------------------------------------------------------------ value generators
    pub fn gen_dn(&mut self) -> i64 {
        const SPECIAL: [i64; 22] = [
            MIN_DN, MIN_DN + 1, MIN_DN + 2, MAX_DN, MAX_DN - 1, MAX_DN - 2, -1, 0, 1, -366, -367, 365, 719_162, 719_161,
            730_119, 730_178, 730_179, 738_276, 738_215, -146_097, 146_096, 577_735,
        ];
        match self.rng.below(10) {
            0..=2 => *self.rng.pick(&SPECIAL),
            3 => self.rng.range_i64(MIN_DN, MAX_DN),
            4 => self.rng.range_i64(MIN_DN, MIN_DN + 800),
            5 => self.rng.range_i64(MAX_DN - 800, MAX_DN),
            6 => self.rng.range_i64(-800, 800),
            7 => self.rng.range_i64(719_162 - 20_000, 719_162 + 25_000),
            _ => self.rng.range_i64(-1_500_000, 1_500_000),
        }
    }
    pub fn gen_sod(&mut self) -> i64 {
        const SPECIAL: [i64; 14] = [0, 1, 59, 60, 61, 3599, 3600, 3601, 43_199, 43_200, 43_201, 86_398, 86_399, 82_800];
        if self.rng.chance(1, 2) {
            *self.rng.pick(&SPECIAL)
        } else {
            self.rng.range_i64(0, 86_399)
        }
    }
    pub fn gen_ns(&mut self) -> u32 {
        const SPECIAL: [u32; 12] = [0, 1, 999, 1000, 1001, 999_999, 1_000_000, 1_000_001, 999_999_999, 999_999_000, 500_000_000, 123_456_789];
        if self.rng.chance(1, 2) {
            *self.rng.pick(&SPECIAL)
        } else {
            self.rng.below(1_000_000_000) as u32
        }
    }
    pub fn gen_off(&mut self) -> i32 {
        const SPECIAL: [i32; 19] = [0, 1, -1, 59, -59, 60, -60, 3599, -3599, 3600, -3600, 19_800, -19_800, 43_200, -43_200, 86_399, -86_399, 34_200, -12_600];
        match self.rng.below(4) {
            0 => 0,
            1 | 2 => *self.rng.pick(&SPECIAL),
            _ => self.rng.range_i64(-86_399, 86_399) as i32,
        }
    }
    pub fn gen_count(&mut self) -> u32 {
        const SPECIAL: [u32; 30] = [
            0, 1, 2, 23, 24, 25, 59, 60, 61, 999, 1000, 1001, 3599, 3600, 86_399, 86_400, 86_401, 999_999, 1_000_000,
            6_000_000, 2_147_483_647, 2_147_483_648, 2_147_483_649, 4_294_967_295, 4_294_967_294, 1_000_000_000,
            999_999_999, 1_000_000_001, 366, 146_097,
        ];
        match self.rng.below(8) {
            0..=2 => *self.rng.pick(&SPECIAL),
            3 | 4 => self.rng.below(200) as u32,
            5 => self.rng.below(200_000) as u32,
            _ => self.rng.next() as u32,
        }
    }
    /// A count chosen so that `inst +/- n*unit` lands within a couple of units of a range end.
    pub fn count_to_edge(&mut self, dn: i64, sod: i64, ns: u32, unit: &str, add: bool) -> Option<u32> {
        let inst = (dn as i128 * 86_400 + sod as i128) * NPS + ns as i128;
        let edge = if add { (MAX_DN as i128 + 1) * NPD - 1 } else { MIN_DN as i128 * NPD };
        let dist = (edge - inst).abs();
        let n = dist / unit_ns(unit) + self.rng.range_i64(-1, 2) as i128;
        if n >= 0 && n <= u32::MAX as i128 {
            Some(n as u32)
        } else {
            None
        }
    }
    pub fn dt_val(&mut self, with_off: bool) -> Value {
        let off = if with_off { self.gen_off() } else { 0 };
        if with_off && self.rng.chance(1, 12) {
            // the value carries Offset::Local; "off" is what Local resolves to on this machine
            let local = astrolabe::Offset::Local.resolve();
            return json!({"ty": "dt", "dn": self.gen_dn(), "sod": self.gen_sod(), "ns": self.gen_ns(), "off": local, "loc": true});
        }
        json!({"ty": "dt", "dn": self.gen_dn(), "sod": self.gen_sod(), "ns": self.gen_ns(), "off": off})
    }
    pub fn dt_near(&mut self, base: &Value) -> Value {
        // an instant close to `base` (within a few units) or equal to it
        let dn = base["dn"].as_i64().unwrap();
        let sod = base["sod"].as_i64().unwrap();
        let ns = base["ns"].as_u64().unwrap() as i64;
        let unit = *self.rng.pick(&UNITS7);
        let k = self.rng.range_i64(-3, 3) as i128;
        let jitter = match self.rng.below(4) {
            0 => 0,
            1 => self.rng.range_i64(-1, 1) as i128,
            2 => self.rng.range_i64(-1_000_000, 1_000_000) as i128,
            _ => self.rng.range_i64(-(unit_ns(unit).min(i64::MAX as i128) as i64) + 1, unit_ns(unit).min(i64::MAX as i128) as i64 - 1) as i128,
        };
        let inst = (dn as i128 * 86_400 + sod as i128) * NPS + ns as i128 + k * unit_ns(unit) + jitter;
        let lo = MIN_DN as i128 * NPD;
        let hi = (MAX_DN as i128 + 1) * NPD - 1;
        let inst = inst.clamp(lo, hi);
        let d = inst.div_euclid(NPD);
        let r = inst.rem_euclid(NPD);
        json!({"ty": "dt", "dn": d as i64, "sod": (r / NPS) as i64, "ns": (r % NPS) as i64, "off": 0})
    }
    pub fn date_val(&mut self) -> Value {
        json!({"ty": "date", "dn": self.gen_dn()})
    }
    pub fn time_val(&mut self, with_off: bool) -> Value {
        let off = if with_off { self.gen_off() } else { 0 };
        if with_off && self.rng.chance(1, 12) {
            let local = astrolabe::Offset::Local.resolve();
            return json!({"ty": "time", "sod": self.gen_sod(), "ns": self.gen_ns(), "off": local, "loc": true});
        }
        json!({"ty": "time", "sod": self.gen_sod(), "ns": self.gen_ns(), "off": off})
    }
    pub fn gen_duration(&mut self) -> (u64, u32) {
        let secs: u64 = match self.rng.below(8) {
            0 => 0,
            1 => self.rng.below(200),
            2 => *self.rng.pick(&[86_399u64, 86_400, 86_401, 172_800, 31_536_000, 62_135_596_800, 62_135_596_799, 62_135_596_801]),
            3 => self.rng.below(1u64 << 33),
            4 => self.rng.below(400_000_000_000_000),
            5 => *self.rng.pick(&[u64::MAX, u64::MAX - 1, 1u64 << 63, 185_542_587_187_199, 185_542_587_187_200, 371_085_174_374_399, 371_085_174_374_400, 18_446_744_073]),
            _ => self.rng.below(100_000_000),
        };
        let ns = self.gen_ns();
        (secs, ns)
    }
}

fn regval_i64(v: &Value, k: &str) -> i64 {
    v[k].as_i64().unwrap_or(0)
}

/// Scenario drivers.  Each emits `n` events.
pub fn run(scenario: &str, path: &str, n: u64, seed: u64) -> u64 {
    let mut s = Session::new(path, seed);
    match scenario {
        "c03" => scen_c03(&mut s, n),
        "c04" => scen_c04(&mut s, n),
        "c06" => scen_c06(&mut s, n),
        "c08" => scen_c08(&mut s, n),
        "c09" => scen_c09(&mut s, n),
        "c10" => scen_c10(&mut s, n),
        "c05" => scen_c05(&mut s, n),
        "c15" => scen_c15(&mut s, n),
        "c07" => scen_c07(&mut s, n),
        _ => {
            eprintln!("unknown scenario {}", scenario);
            std::process::exit(2);
        }
    }
    s.out.finish()
}

fn ts_wide_of(dn: i64, sod: i64) -> Value {
    wide((dn as i128 - 719_162) * 86_400 + sod as i128)
}

/// C03: timestamps and ordering
fn scen_c03(s: &mut Session, n: u64) {
    while s.i < n {
        let a = s.dt_val(true);
        s.init("A", a.clone());
        let b = if s.rng.chance(1, 2) { s.dt_near(&a) } else { s.dt_val(true) };
        let mut b = b;
        if s.rng.chance(2, 3) {
            b["off"] = json!(s.gen_off());
        }
        s.init("B", b);
        s.step("dt_ts", "A", "A", None, json!({}));
        s.step("dt_cmp", "A", "B", None, json!({}));
        s.step("dt_cmp", "B", "A", None, json!({}));
        let u = *s.rng.pick(&UNITS7);
        s.step("dt_since", "A", "B", None, json!({"u": u}));
        s.step("dt_since", "B", "A", None, json!({"u": u}));
        // same instant, other offset
        let o = s.gen_off();
        s.step("dt_set_offset", "A", "A", Some("C"), json!({"o": o}));
        s.step("dt_cmp", "A", "C", None, json!({}));
        s.step("dt_cmp", "C", "B", None, json!({}));
        // from_timestamp: in range, at the edges, out of range
        let ts: Value = match s.rng.below(8) {
            0 => ts_wide_of(s.gen_dn(), s.gen_sod()),
            1 => wide(*s.rng.pick(&[0i64, 1, -1, 86_399, 86_400, 86_401, -86_399, -86_400, -86_401, -62_135_596_800, -62_135_596_801, -62_135_596_799])),
            2 => ts_wide_of(MIN_DN, *s.rng.pick(&[0i64, 1, 86_399])),
            3 => ts_wide_of(MAX_DN, *s.rng.pick(&[0i64, 86_398, 86_399])),
            4 => ts_wide_of(MIN_DN - 1, *s.rng.pick(&[86_399i64, 86_398, 0])),
            5 => ts_wide_of(MAX_DN + 1, *s.rng.pick(&[0i64, 1, 86_399])),
            6 => wide(*s.rng.pick(&[i64::MAX, i64::MIN, i64::MAX - 1, i64::MIN + 1, 1i64 << 62, -(1i64 << 62), 185_542_587_187_200, -185_604_722_870_401])),
            _ => wide(s.rng.range_i64(-200_000_000_000_000, 200_000_000_000_000)),
        };
        s.step("dt_from_ts", "A", "A", Some("C"), json!({"ts": ts.clone()}));
        s.step("dt_ts", "C", "C", None, json!({}));
        s.step("date_from_ts", "A", "A", Some("D"), json!({"ts": ts}));
        s.step("date_ts", "D", "D", None, json!({}));
        // conversions between the types, copies, defaults
        s.step("date_from_dt", "A", "A", Some("D"), json!({}));
        s.step("dt_from_date", "D", "D", Some("C"), json!({}));
        s.step("dt_cmp", "C", "A", None, json!({}));
        s.step("dt_copy", "B", "B", Some("C"), json!({}));
        s.step("dt_cmp", "C", "B", None, json!({}));
        if s.rng.chance(1, 40) {
            s.step_now("dt_now", "C");
            s.step("dt_ts", "C", "C", None, json!({}));
            s.step_now("date_now", "D");
            s.step_now("time_now", "T");
        }
        if s.rng.chance(1, 8) {
            s.step("dt_default", "A", "A", Some("C"), json!({}));
            s.step("date_default", "A", "A", Some("D"), json!({}));
            s.step("dt_cmp", "C", "A", None, json!({}));
        }
        s.step("date_copy", "D", "D", Some("D"), json!({}));
        let e = s.date_val();
        s.init("E", e);
        s.step("date_cmp", "D", "E", None, json!({}));
        s.step("date_since", "D", "E", None, json!({}));
        s.step("date_cmp", "E", "D", None, json!({}));
    }
}

/// C04: add/sub of exact amounts, chains carried by the specification
fn scen_c04(s: &mut Session, n: u64) {
    while s.i < n {
        let a = s.dt_val(true);
        s.init("A", a.clone());
        let d = s.date_val();
        s.init("D", d.clone());
        let t = s.time_val(false);
        s.init("T", t);
        let mut cur = a;
        for _ in 0..12 {
            let add = s.rng.chance(1, 2);
            match s.rng.below(10) {
                0..=4 => {
                    let u = *s.rng.pick(&UNITS7);
                    let cnt = if s.rng.chance(1, 4) {
                        s.count_to_edge(regval_i64(&cur, "dn"), regval_i64(&cur, "sod"), regval_i64(&cur, "ns") as u32, u, add)
                            .unwrap_or_else(|| s.gen_count())
                    } else {
                        s.gen_count()
                    };
                    let r = s.step(if add { "dt_add" } else { "dt_sub" }, "A", "A", Some("A"), json!({"u": u, "n": wide(cnt)}));
                    if r["k"] == "ok" {
                        cur = r;
                    }
                }
                5 | 6 => {
                    let (secs, ns) = s.gen_duration();
                    let r = s.step(if add { "dt_add_dur" } else { "dt_sub_dur" }, "A", "A", Some("A"), json!({"secs": wide(secs), "ns": ns}));
                    if r["k"] == "ok" {
                        cur = r;
                    }
                }
                7 => {
                    let r = s.step(if add { "dt_add_time" } else { "dt_sub_time" }, "A", "T", Some("A"), json!({}));
                    if r["k"] == "ok" {
                        cur = r;
                    }
                    s.step("dt_copy", "A", "A", Some("A"), json!({}));
                }
                8 => {
                    let cnt = if s.rng.chance(1, 3) {
                        let dn = match s.get("D") {
                            Val::Date(x) => {
                                use astrolabe::DateUtilities;
                                x.timestamp().div_euclid(86_400) + 719_162
                            }
                            _ => 0,
                        };
                        s.count_to_edge(dn, 0, 0, "day", add).unwrap_or(1)
                    } else {
                        s.gen_count()
                    };
                    s.step(if add { "date_add" } else { "date_sub" }, "D", "D", Some("D"), json!({"n": wide(cnt)}));
                }
                _ => {
                    let (secs, ns) = s.gen_duration();
                    s.step(if add { "date_add_dur" } else { "date_sub_dur" }, "D", "D", Some("D"), json!({"secs": wide(secs), "ns": ns}));
                }
            }
        }
    }
}

/// C06: elapsed units between pairs
fn scen_c06(s: &mut Session, n: u64) {
    while s.i < n {
        let a = s.dt_val(true);
        s.init("A", a.clone());
        let mut b = if s.rng.chance(3, 4) { s.dt_near(&a) } else { s.dt_val(true) };
        if s.rng.chance(1, 2) {
            b["off"] = json!(s.gen_off());
        }
        s.init("B", b);
        for u in UNITS7 {
            s.step("dt_since", "A", "B", None, json!({"u": u}));
            s.step("dt_since", "B", "A", None, json!({"u": u}));
        }
        s.step("dt_dur_between", "A", "B", None, json!({}));
        s.step("dt_dur_between", "B", "A", None, json!({}));
        // since inverts add: C = B + n units, C.since(B) and B.since(C)
        let u = *s.rng.pick(&UNITS7);
        let cnt = s.gen_count();
        let r = s.step("dt_add", "B", "B", Some("C"), json!({"u": u, "n": wide(cnt)}));
        if r["k"] == "ok" {
            s.step("dt_since", "C", "B", None, json!({"u": u}));
            s.step("dt_since", "B", "C", None, json!({"u": u}));
        }
        // Time pairs
        let t = s.time_val(true);
        s.init("T", t);
        let t2 = s.time_val(true);
        s.init("U", t2);
        for u in UNITS6 {
            s.step("time_since", "T", "U", None, json!({"u": u}));
            s.step("time_since", "U", "T", None, json!({"u": u}));
        }
        s.step("time_dur_between", "T", "U", None, json!({}));
        s.step("time_dur_between", "U", "T", None, json!({}));
        // Date pairs
        let d = s.date_val();
        s.init("D", d);
        let e = s.date_val();
        s.init("E", e);
        s.step("date_since", "D", "E", None, json!({}));
        s.step("date_since", "E", "D", None, json!({}));
        s.step("date_dur_between", "D", "E", None, json!({}));
        s.step("date_dur_between", "E", "D", None, json!({}));
    }
}

/// C08: Time sessions - every produced Time is observed (as_nanos, canonical equality)
fn scen_c08(s: &mut Session, n: u64) {
    while s.i < n {
        let t = s.time_val(true);
        s.init("T", t);
        let u0 = s.time_val(false);
        s.init("U", u0);
        for _ in 0..14 {
            let add = s.rng.chance(1, 2);
            match s.rng.below(12) {
                0..=4 => {
                    let u = *s.rng.pick(&UNITS6);
                    let mut cnt = s.gen_count();
                    if s.rng.chance(1, 3) {
                        // a count that lands on (or next to) midnight, the wrap-around boundary
                        if let Val::Time(t) = s.get("T") {
                            let nod = t.as_nanos() as i128 % NPD;
                            let dist = if add { NPD - nod } else { nod };
                            let n = dist / unit_ns(u) + s.rng.range_i64(-1, 1) as i128;
                            if n >= 0 && n <= u32::MAX as i128 {
                                cnt = n as u32;
                            }
                        }
                    }
                    s.step(if add { "time_add" } else { "time_sub" }, "T", "T", Some("T"), json!({"u": u, "n": wide(cnt)}));
                }
                5 | 6 => {
                    s.step(if add { "time_add_time" } else { "time_sub_time" }, "T", "U", Some("T"), json!({}));
                }
                7 | 8 => {
                    let (secs, ns) = s.gen_duration();
                    let secs = if s.rng.chance(1, 2) { secs % 200_000 } else { secs };
                    s.step(if add { "time_add_dur" } else { "time_sub_dur" }, "T", "T", Some("T"), json!({"secs": wide(secs), "ns": ns}));
                }
                9 => {
                    s.step("time_cmp", "T", "U", None, json!({}));
                    s.step("time_get", "T", "T", None, json!({}));
                    s.step("time_fmt_get", "T", "T", None, json!({}));
                }
                10 => {
                    let d = s.dt_val(true);
                    s.init("A", d);
                    match s.rng.below(4) {
                        0 => {
                            // Time -> DateTime -> Time, and set_time
                            s.step("dt_from_time", "T", "T", Some("B"), json!({}));
                            s.step("time_from_dt", "B", "B", Some("T"), json!({}));
                        }
                        1 => {
                            s.step("dt_set_time", "A", "T", Some("A"), json!({}));
                            s.step("time_from_dt", "A", "A", Some("T"), json!({}));
                        }
                        2 => {
                            s.step("time_copy", "T", "T", Some("T"), json!({}));
                            if s.rng.chance(1, 4) {
                                s.step("time_default", "T", "T", Some("T"), json!({}));
                            }
                        }
                        _ => {
                            s.step("time_from_dt", "A", "A", Some("T"), json!({}));
                        }
                    }
                }
                _ => {
                    let which = s.rng.below(3);
                    let big = s.rng.chance(1, 3);
                    match which {
                        0 => {
                            let v: u64 = if big { *s.rng.pick(&[86_400u64, 86_401, u32::MAX as u64, 1 << 31, 100_000]) } else { s.rng.below(86_400) };
                            s.step("time_from_seconds", "T", "T", Some("T"), json!({"s": wide(v)}));
                        }
                        1 => {
                            let v: u64 = if big { *s.rng.pick(&[86_400_000_000_000u64, 86_400_000_000_001, u64::MAX, 1 << 63, 172_800_000_000_000]) } else { s.rng.below(86_400_000_000_000) };
                            s.step("time_from_nanos", "T", "T", Some("T"), json!({"n": wide(v)}));
                        }
                        _ => {
                            let h = if big { *s.rng.pick(&[24u32, 25, u32::MAX, 1 << 31]) } else { s.rng.below(24) as u32 };
                            let mi = if s.rng.chance(1, 8) { *s.rng.pick(&[60u32, 61, u32::MAX]) } else { s.rng.below(60) as u32 };
                            let se = if s.rng.chance(1, 8) { *s.rng.pick(&[60u32, 61, u32::MAX]) } else { s.rng.below(60) as u32 };
                            s.step("time_from_hms", "T", "T", Some("T"), json!({"h": wide(h), "mi": wide(mi), "s": wide(se)}));
                        }
                    }
                }
            }
        }
    }
}

const DT_SET_FIELDS: [&str; 10] = ["year", "month", "day", "doy", "hour", "minute", "second", "milli", "micro", "nano"];
const DT_CLEAR_FIELDS: [&str; 9] = ["year", "month", "day", "hour", "minute", "second", "milli", "micro", "nano"];

fn gen_field_value(s: &mut Session, f: &str) -> i64 {
    let max: i64 = match f {
        "year" => 5_879_611,
        "month" => 12,
        "day" => 31,
        "doy" => 366,
        "hour" => 23,
        "minute" | "second" => 59,
        "milli" => 999,
        "micro" => 999_999,
        _ => 999_999_999,
    };
    let min: i64 = match f {
        "year" => -5_879_611,
        "month" | "day" | "doy" => 1,
        _ => 0,
    };
    let v = gen_field_value_raw(s, f, min, max);
    if f == "year" {
        // set_year takes an i32: stay inside its domain
        v.clamp(i32::MIN as i64, i32::MAX as i64)
    } else {
        v
    }
}

fn gen_field_value_raw(s: &mut Session, f: &str, min: i64, max: i64) -> i64 {
    match s.rng.below(10) {
        0 => min - 1,
        1 => min,
        2 => max,
        3 => max + 1,
        4 => *s.rng.pick(&[0i64, 1, 28, 29, 30, 31, 365, 366, 367, 100, 101, 1000, 2_147_483_647, 4_294_967_295, 2_147_483_648]),
        5 if f == "year" => *s.rng.pick(&[-1i64, 1, 0, -4, -5, 4, 100, -101, 400, -401, 2000, 2024, 2023, 1900, -5_879_612, 5_879_612, -2_147_483_648]),
        _ => s.rng.range_i64(min, max.min(if f == "year" { 4000 } else { max })),
    }
}

fn field_arg(f: &str, v: i64) -> Value {
    // u32 parameters cannot be negative: map min-1 of unsigned fields to the u32 wrap
    if f != "year" && v < 0 {
        wide(u32::MAX)
    } else {
        wide(v)
    }
}

/// C09: set_* / clear_until_* in local time, observed through every getter
fn scen_c09(s: &mut Session, n: u64) {
    while s.i < n {
        let mut a = s.dt_val(true);
        if s.rng.chance(1, 3) {
            // local date differs from UTC date: time of day close to midnight
            a["sod"] = json!(*s.rng.pick(&[0i64, 1, 1800, 3599, 84_600, 86_399, 82_800]));
        }
        s.init("A", a);
        s.step("dt_get", "A", "A", None, json!({}));
        s.step("dt_as_ymdhms", "A", "A", None, json!({}));
        s.step("dt_fmt_get", "A", "A", None, json!({}));
        for _ in 0..6 {
            if s.rng.chance(2, 3) {
                let f = *s.rng.pick(&DT_SET_FIELDS);
                let v = gen_field_value(s, f);
                s.step("dt_set", "A", "A", Some("A"), json!({"f": f, "v": field_arg(f, v)}));
            } else {
                let f = *s.rng.pick(&DT_CLEAR_FIELDS);
                s.step("dt_clear", "A", "A", Some("A"), json!({"f": f}));
            }
            s.step("dt_get", "A", "A", None, json!({}));
            s.step("dt_as_ymdhms", "A", "A", None, json!({}));
            s.step("dt_fmt_get", "A", "A", None, json!({}));
        }
        let t = s.time_val(true);
        s.init("T", t);
        for _ in 0..4 {
            if s.rng.chance(2, 3) {
                let f = *s.rng.pick(&DT_SET_FIELDS[4..]);
                let v = gen_field_value(s, f);
                s.step("time_set", "T", "T", Some("T"), json!({"f": f, "v": field_arg(f, v)}));
            } else {
                let f = *s.rng.pick(&DT_CLEAR_FIELDS[3..]);
                s.step("time_clear", "T", "T", Some("T"), json!({"f": f}));
            }
            s.step("time_get", "T", "T", None, json!({}));
            s.step("time_fmt_get", "T", "T", None, json!({}));
        }
        let d = s.date_val();
        s.init("D", d);
        for _ in 0..3 {
            if s.rng.chance(2, 3) {
                let f = *s.rng.pick(&DT_SET_FIELDS[..4]);
                let v = gen_field_value(s, f);
                s.step("date_set", "D", "D", Some("D"), json!({"f": f, "v": field_arg(f, v)}));
            } else {
                let f = *s.rng.pick(&DT_CLEAR_FIELDS[..3]);
                s.step("date_clear", "D", "D", Some("D"), json!({"f": f}));
            }
            s.step("date_get", "D", "D", None, json!({}));
        }
    }
}

/// C10: offsets are views
fn scen_c10(s: &mut Session, n: u64) {
    while s.i < n {
        let a = s.dt_val(true);
        s.init("A", a.clone());
        let b = s.dt_near(&a);
        s.init("B", b);
        for _ in 0..3 {
            let o = s.gen_off();
            let which = if s.rng.chance(2, 3) { "dt_set_offset" } else { "dt_as_offset" };
            s.step(which, "A", "A", Some("A"), json!({"o": o}));
            s.step("dt_get", "A", "A", None, json!({}));
            s.step("dt_as_ymdhms", "A", "A", None, json!({}));
            s.step("dt_fmt_get", "A", "A", None, json!({}));
            s.step("dt_ts", "A", "A", None, json!({}));
            s.step("dt_cmp", "A", "B", None, json!({}));
            let u = *s.rng.pick(&UNITS7);
            s.step("dt_since", "A", "B", None, json!({"u": u}));
        }
        let t = s.time_val(true);
        s.init("T", t);
        for _ in 0..2 {
            let o = s.gen_off();
            let which = if s.rng.chance(1, 2) { "time_set_offset" } else { "time_as_offset" };
            s.step(which, "T", "T", Some("T"), json!({"o": o}));
            s.step("time_get", "T", "T", None, json!({}));
            s.step("time_fmt_get", "T", "T", None, json!({}));
        }
        // constructors of Offset
        let sec: i64 = match s.rng.below(4) {
            0 => *s.rng.pick(&[86_399i64, 86_400, -86_399, -86_400, 86_401, -86_401, i32::MAX as i64, i32::MIN as i64, 0]),
            _ => s.rng.range_i64(-90_000, 90_000),
        };
        s.step("off_from_seconds", "A", "A", None, json!({"s": wide(sec)}));
        let h: i64 = if s.rng.chance(1, 5) { *s.rng.pick(&[24i64, -24, 25, i32::MAX as i64, i32::MIN as i64, -23, 23]) } else { s.rng.range_i64(-23, 23) };
        let mi: u32 = if s.rng.chance(1, 6) { *s.rng.pick(&[60u32, 61, u32::MAX]) } else { s.rng.below(60) as u32 };
        let se: u32 = if s.rng.chance(1, 6) { *s.rng.pick(&[60u32, 61, u32::MAX]) } else { s.rng.below(60) as u32 };
        s.step("off_from_hms", "A", "A", None, json!({"h": wide(h), "mi": wide(mi), "s": wide(se)}));
        let o = s.gen_off();
        s.step("off_resolve_hms", "A", "A", None, json!({"o": o}));
    }
}

fn gen_month_count(s: &mut Session) -> u32 {
    match s.rng.below(8) {
        0..=3 => s.rng.below(40) as u32,
        4 => *s.rng.pick(&[11u32, 12, 13, 23, 24, 25, 47, 48, 49, 120, 1200, 4800, 2_147_483_647, 2_147_483_648, 4_294_967_295, 141_110_676, 70_555_338, 11_759_223, 5_879_611]),
        5 => s.rng.below(30_000) as u32,
        6 => s.rng.below(150_000_000) as u32,
        _ => s.rng.next() as u32,
    }
}

/// C05: month / year arithmetic
fn scen_c05(s: &mut Session, n: u64) {
    while s.i < n {
        let d = s.date_val();
        s.init("D", d);
        // half of the DateTimes carry an offset (the day of month may then differ between the stored and the local date)
        let with_off = s.rng.chance(1, 2);
        let mut a = s.dt_val(with_off);
        if with_off && s.rng.chance(1, 2) {
            a["dn"] = json!(month_end_dn(s));
            a["sod"] = json!(*s.rng.pick(&[0i64, 1800, 3599, 43_200, 82_800, 84_600, 86_399]));
        }
        s.init("A", a);
        for _ in 0..5 {
            let cnt = gen_month_count(s);
            let op = *s.rng.pick(&["add_months", "sub_months", "add_years", "sub_years"]);
            let cnt = if op.ends_with("years") && s.rng.chance(1, 2) { cnt % 3000 } else { cnt };
            s.step(&format!("date_{}", op), "D", "D", Some("E"), json!({"n": wide(cnt)}));
            s.step(&format!("dt_{}", op), "A", "A", Some("B"), json!({"n": wide(cnt)}));
            if s.rng.chance(1, 2) {
                // continue the chain from the result
                if let Val::Date(_) = s.get("E") {
                    s.step("date_add", "E", "E", Some("D"), json!({"n": wide(0u32)}));
                }
            }
        }
    }
}

/// C07: months_since / years_since on random (far-range and near) pairs
fn scen_c07(s: &mut Session, n: u64) {
    while s.i < n {
        let a = s.dt_val(false);
        s.init("A", a.clone());
        let mut b = s.dt_val(false);
        if s.rng.chance(2, 3) {
            let dd = s.rng.range_i64(-800, 800);
            let dn = (a["dn"].as_i64().unwrap() + dd).clamp(MIN_DN, MAX_DN);
            b["dn"] = json!(dn);
        }
        s.init("B", b);
        s.step("dt_months_since", "A", "B", None, json!({}));
        s.step("dt_months_since", "B", "A", None, json!({}));
        s.step("dt_years_since", "A", "B", None, json!({}));
        s.step("dt_years_since", "B", "A", None, json!({}));
        s.step("date_from_dt", "A", "A", Some("D"), json!({}));
        s.step("date_from_dt", "B", "B", Some("E"), json!({}));
        s.step("date_months_since", "D", "E", None, json!({}));
        s.step("date_months_since", "E", "D", None, json!({}));
        s.step("date_years_since", "D", "E", None, json!({}));
        s.step("date_years_since", "E", "D", None, json!({}));
        // month ends, times of day on both sides of each other, and offsets: the bracket relation with add_months
        for _ in 0..3 {
            let off = s.rng.chance(1, 2);
            let mut p = s.dt_val(off);
            let mut q = s.dt_val(off);
            p["dn"] = json!(month_end_dn(s));
            q["dn"] = json!(if s.rng.chance(1, 2) { month_end_dn(s) } else { p["dn"].as_i64().unwrap() + s.rng.range_i64(-70, 70) });
            if s.rng.chance(1, 2) {
                q["sod"] = json!((p["sod"].as_i64().unwrap() + s.rng.range_i64(-2, 2)).clamp(0, 86_399));
            }
            s.init("P", p);
            s.init("Q", q);
            s.step("dt_months_bracket", "P", "Q", None, json!({}));
            s.step("dt_months_since", "P", "Q", None, json!({}));
            s.step("dt_years_since", "Q", "P", None, json!({}));
        }
    }
}

/// Day number of a day at or next to a month end of a year near today, near 0001-01-01 or BC (through the public API).
fn month_end_dn(s: &mut Session) -> i64 {
    let y = *s.rng.pick(&[2019i32, 2020, 2021, 2022, 2023, 2024, 2025, 1, 2, 4, -1, -4, -5, 1900, 2000]);
    let m = 1 + s.rng.below(12) as u32;
    let d = *s.rng.pick(&[1u32, 2, 27, 28, 28, 29, 30, 31]);
    let date = astrolabe::Date::from_ymd(y, m, d).or_else(|_| astrolabe::Date::from_ymd(y, m, 28)).unwrap();
    astrolabe::DateUtilities::timestamp(&date).div_euclid(86_400) + 719_162
}

fn gen_u32(s: &mut Session, max_valid: u32) -> u32 {
    match s.rng.below(10) {
        0 => 0,
        1 => 1,
        2 => max_valid.saturating_sub(1),
        3 => max_valid,
        4 => max_valid.saturating_add(1),
        5 => *s.rng.pick(&[2_147_483_647u32, 2_147_483_648, 4_294_967_295, 4_294_967_294, 256, 65_536, 4_294_967_295 - 59, 4_294_881_896]),
        6 => s.rng.next() as u32,
        _ => s.rng.below(max_valid as u64 + 1) as u32,
    }
}

fn gen_year(s: &mut Session) -> i32 {
    match s.rng.below(8) {
        0 => *s.rng.pick(&[0i32, 1, -1, -4, -5, 4, 100, -101, 400, -401, 2000, 2023, 2024, 1900]),
        1 => *s.rng.pick(&[5_879_611i32, 5_879_612, 5_879_610, -5_879_611, -5_879_612, -5_879_610, i32::MAX, i32::MIN, i32::MAX - 1, i32::MIN + 1]),
        2 => s.rng.next() as i32,
        _ => s.rng.range_i64(-3000, 3000) as i32,
    }
}

/// C15: fallible constructors and setters over the full argument domains; the Display text of
/// every error is logged for the range-statement clause (Trace_Bounds).
fn scen_c15(s: &mut Session, n: u64) {
    while s.i < n {
        let (y, m, d) = (gen_year(s), gen_u32(s, 12), gen_u32(s, 31));
        let (h, mi, se) = (gen_u32(s, 23), gen_u32(s, 59), gen_u32(s, 59));
        // bias towards tuples where only one argument is invalid
        let (m, d) = if s.rng.chance(1, 2) { (1 + s.rng.below(12) as u32, d) } else { (m, d) };
        let (mi, se) = if s.rng.chance(1, 2) { (s.rng.below(60) as u32, s.rng.below(60) as u32) } else { (mi, se) };
        s.step("date_from_ymd", "A", "A", Some("D"), json!({"y": wide(y), "m": wide(m), "d": wide(d)}));
        s.step("dt_from_ymd", "A", "A", Some("A"), json!({"y": wide(y), "m": wide(m), "d": wide(d)}));
        s.step("dt_from_hms", "A", "A", Some("B"), json!({"h": wide(h), "mi": wide(mi), "s": wide(se)}));
        s.step("time_from_hms", "A", "A", Some("T"), json!({"h": wide(h), "mi": wide(mi), "s": wide(se)}));
        let (d2, h2) = if s.rng.chance(1, 2) { (1 + s.rng.below(28) as u32, s.rng.below(24) as u32) } else { (d, h) };
        s.step("dt_from_ymdhms", "A", "A", Some("C"), json!({"y": wide(y), "m": wide(m), "d": wide(d2), "h": wide(h2), "mi": wide(mi), "s": wide(se)}));
        let secs = gen_u32(s, 86_399);
        s.step("time_from_seconds", "A", "A", Some("T"), json!({"s": wide(secs)}));
        let nanos: u64 = match s.rng.below(6) {
            0 => *s.rng.pick(&[0u64, 1, 86_399_999_999_999, 86_400_000_000_000, 86_400_000_000_001, u64::MAX, 1 << 63, 1 << 32, (1 << 32) + 5]),
            1 => s.rng.next(),
            _ => s.rng.below(86_400_000_000_000),
        };
        s.step("time_from_nanos", "A", "A", Some("T"), json!({"n": wide(nanos)}));
        let osec: i32 = match s.rng.below(5) {
            0 => *s.rng.pick(&[86_399i32, 86_400, -86_399, -86_400, i32::MAX, i32::MIN, 0, 1, -1]),
            1 => s.rng.next() as i32,
            _ => s.rng.range_i64(-90_000, 90_000) as i32,
        };
        s.step("off_from_seconds", "A", "A", None, json!({"s": wide(osec)}));
        let oh: i32 = match s.rng.below(5) {
            0 => *s.rng.pick(&[23i32, 24, -23, -24, i32::MAX, i32::MIN, 0]),
            1 => s.rng.next() as i32,
            _ => s.rng.range_i64(-25, 25) as i32,
        };
        s.step("off_from_hms", "A", "A", None, json!({"h": wide(oh), "mi": wide(mi), "s": wide(se)}));
        // setters on a freshly loaded value (its abstract value is logged as `aval`)
        let a = s.dt_val(true);
        s.init("A", a);
        let f = *s.rng.pick(&DT_SET_FIELDS);
        let v = gen_field_value(s, f);
        s.step("dt_set", "A", "A", Some("B"), json!({"f": f, "v": field_arg(f, v)}));
        let t = s.time_val(true);
        s.init("T", t);
        let f = *s.rng.pick(&DT_SET_FIELDS[4..]);
        let v = gen_field_value(s, f);
        s.step("time_set", "T", "T", Some("U"), json!({"f": f, "v": field_arg(f, v)}));
        let dd = s.date_val();
        s.init("D", dd);
        let f = *s.rng.pick(&DT_SET_FIELDS[..4]);
        let v = gen_field_value(s, f);
        s.step("date_set", "D", "D", Some("E"), json!({"f": f, "v": field_arg(f, v)}));
    }
}

pub fn main(args: &[String]) {
    let scenario = arg_value(args, "--scenario").expect("--scenario");
    let out = arg_value(args, "--out").expect("--out");
    let n: u64 = arg_value(args, "--n").and_then(|x| x.parse().ok()).unwrap_or(10_000);
    let lines = run(&scenario, &out, n, seed_from_env());
    println!("{}", json!({"events": lines, "scenario": scenario}));
}
