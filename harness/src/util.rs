//! Shared helpers: representation-only encodings (wide integers as base-1000 limbs, text as
//! arrays of one-character strings), a silent panic hook, a tiny deterministic PRNG and
//! ndjson output.  Nothing here computes an expected value.

use serde_json::{json, Value};
use std::io::{BufWriter, Write};
use std::panic::{catch_unwind, AssertUnwindSafe};

/// Wide integer as the `Wide` TLA+ module reads it: `{"neg":bool,"mag":[limbs little-endian base 1000]}`.
/// Built from the decimal numeral by cutting it into 3-digit groups.
pub fn wide_from_decimal(s: &str) -> Value {
    let (neg, digits) = match s.strip_prefix('-') {
        Some(rest) => (true, rest),
        None => (false, s),
    };
    let digits = digits.trim_start_matches('0');
    let mut mag: Vec<u32> = Vec::new();
    let bytes = digits.as_bytes();
    let mut end = bytes.len();
    while end > 0 {
        let start = end.saturating_sub(3);
        let group = std::str::from_utf8(&bytes[start..end]).unwrap();
        mag.push(group.parse::<u32>().unwrap());
        end = start;
    }
    json!({"neg": neg && !mag.is_empty(), "mag": mag})
}

pub fn wide<T: std::fmt::Display>(v: T) -> Value {
    wide_from_decimal(&v.to_string())
}

/// Text as an array of one-character strings.
pub fn chars(s: &str) -> Value {
    Value::Array(s.chars().map(|c| Value::String(c.to_string())).collect())
}

pub fn install_silent_panic_hook() {
    std::panic::set_hook(Box::new(|_| {}));
}

pub enum Outcome<T> {
    Ok(T),
    Panic(String),
}

pub fn guarded<T>(f: impl FnOnce() -> T) -> Outcome<T> {
    match catch_unwind(AssertUnwindSafe(f)) {
        Ok(v) => Outcome::Ok(v),
        Err(e) => {
            let msg = if let Some(s) = e.downcast_ref::<&str>() {
                s.to_string()
            } else if let Some(s) = e.downcast_ref::<String>() {
                s.clone()
            } else {
                "panic".to_string()
            };
            Outcome::Panic(msg)
        }
    }
}

/// splitmix64 / xorshift based PRNG, deterministic from VERIF_SEED.
#[derive(Clone)]
pub struct Rng(pub u64);

impl Rng {
    pub fn new(seed: u64) -> Self {
        Rng(seed.wrapping_mul(0x9E3779B97F4A7C15) ^ 0xD1B54A32D192ED03)
    }
    pub fn next(&mut self) -> u64 {
        self.0 = self.0.wrapping_add(0x9E3779B97F4A7C15);
        let mut z = self.0;
        z = (z ^ (z >> 30)).wrapping_mul(0xBF58476D1CE4E5B9);
        z = (z ^ (z >> 27)).wrapping_mul(0x94D049BB133111EB);
        z ^ (z >> 31)
    }
    pub fn below(&mut self, n: u64) -> u64 {
        if n == 0 {
            0
        } else {
            self.next() % n
        }
    }
    pub fn range_i64(&mut self, lo: i64, hi: i64) -> i64 {
        let span = (hi as i128 - lo as i128 + 1) as u128;
        let r = ((self.next() as u128) << 64 | self.next() as u128) % span;
        (lo as i128 + r as i128) as i64
    }
    pub fn pick<'a, T>(&mut self, xs: &'a [T]) -> &'a T {
        &xs[self.below(xs.len() as u64) as usize]
    }
    pub fn chance(&mut self, num: u64, den: u64) -> bool {
        self.below(den) < num
    }
}

pub fn seed_from_env() -> u64 {
    std::env::var("VERIF_SEED")
        .ok()
        .and_then(|s| s.parse::<i64>().ok())
        .unwrap_or(1) as u64
}

pub struct NdjsonOut {
    w: BufWriter<std::fs::File>,
    pub lines: u64,
}

impl NdjsonOut {
    pub fn create(path: &str) -> Self {
        let f = std::fs::File::create(path).unwrap_or_else(|e| {
            eprintln!("cannot create {}: {}", path, e);
            std::process::exit(2)
        });
        NdjsonOut {
            w: BufWriter::with_capacity(1 << 20, f),
            lines: 0,
        }
    }
    pub fn emit(&mut self, v: &Value) {
        serde_json::to_writer(&mut self.w, v).unwrap();
        self.w.write_all(b"\n").unwrap();
        self.lines += 1;
    }
    pub fn finish(mut self) -> u64 {
        self.w.flush().unwrap();
        self.lines
    }
}

pub fn read_ndjson(path: &str) -> Vec<Value> {
    let text = std::fs::read_to_string(path).unwrap_or_else(|e| {
        eprintln!("cannot read {}: {}", path, e);
        std::process::exit(2)
    });
    text.lines()
        .filter(|l| !l.trim().is_empty())
        .map(|l| serde_json::from_str(l).expect("bad ndjson line"))
        .collect()
}

/// Parse `--key value` style arguments.
pub fn arg_value(args: &[String], key: &str) -> Option<String> {
    args.iter()
        .position(|a| a == key)
        .and_then(|i| args.get(i + 1).cloned())
}


// ------------------------------------------------------------------------------------------
// Watchdog: a call into the code under test that does not return is an observation, not a tool
// problem.  `watch(desc)` arms a deadline for the current case, `unwatch()` disarms it; when the
// deadline passes the process prints {"k":"hang","what":<desc>} and exits with status 3.
// ------------------------------------------------------------------------------------------
static WATCH: std::sync::Mutex<Option<(std::time::Instant, String)>> = std::sync::Mutex::new(None);
static WATCH_STARTED: std::sync::Once = std::sync::Once::new();

pub fn hang_limit() -> std::time::Duration {
    let secs = std::env::var("VERIF_HANG_SECS").ok().and_then(|s| s.parse::<u64>().ok()).unwrap_or(120);
    std::time::Duration::from_secs(secs)
}

pub fn watch(desc: impl FnOnce() -> String) {
    WATCH_STARTED.call_once(|| {
        std::thread::spawn(|| loop {
            std::thread::sleep(std::time::Duration::from_millis(250));
            let fired = {
                let g = WATCH.lock().unwrap_or_else(|e| e.into_inner());
                match &*g {
                    Some((t0, what)) if t0.elapsed() > hang_limit() => Some(what.clone()),
                    _ => None,
                }
            };
            if let Some(what) = fired {
                use std::io::Write;
                let v: serde_json::Value = serde_json::from_str(&what).unwrap_or(serde_json::Value::String(what));
                println!("{}", serde_json::json!({"k": "hang", "what": v, "limit_s": hang_limit().as_secs()}));
                let _ = std::io::stdout().flush();
                std::process::exit(3);
            }
        });
    });
    let mut g = WATCH.lock().unwrap_or_else(|e| e.into_inner());
    *g = Some((std::time::Instant::now(), desc()));
}

pub fn unwatch() {
    let mut g = WATCH.lock().unwrap_or_else(|e| e.into_inner());
    *g = None;
}
