#!/usr/bin/env python3
"""Adds CPython zoneinfo's answer (`zi`) to every record of a record-tz trace: the second opinion on the
specification's Lookup and on the harness's TZif reader. Usage: zi_opinion.py <corpus dir> <trace in> <trace out>"""
import io, json, sys, datetime, zoneinfo
corpus, src, dst = sys.argv[1:4]
UTC = datetime.timezone.utc
EPOCH = datetime.datetime(1970, 1, 1, tzinfo=UTC)

def slim(b):
    return None

with open(src) as f, open(dst, "w") as out:
    for line in f:
        r = json.loads(line)
        if r["enc"] == "fat":
            data = open("%s/%s" % (corpus, r["zone"]), "rb").read()
            zi = zoneinfo.ZoneInfo.from_file(io.BytesIO(data))
            offs = []
            for ts in r["unix"]:
                dt = EPOCH + datetime.timedelta(seconds=ts)
                offs.append(int(dt.astimezone(zi).utcoffset().total_seconds()))
            r["zi"] = offs
        out.write(json.dumps(r) + "\n")
