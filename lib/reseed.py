#!/usr/bin/env python3
"""reseed.py <id> <pids...>: re-runs the checks <pids> against the stored seeded change /verif/seeded/<id> (after the
checks were strengthened) and records the result; the earlier result moves to detection_history."""
import json, os, subprocess, sys
sid, pids = sys.argv[1], sys.argv[2:]
d = os.path.join("/verif/seeded", sid)
out = subprocess.run([sys.executable, os.path.join(os.path.dirname(__file__), "seedtest.py"), d] + pids,
                     stdout=subprocess.PIPE, text=True).stdout.strip().splitlines()[-1]
r = json.loads(out)
mp = os.path.join(d, "meta.json")
meta = json.load(open(mp))
hist = meta.get("detection_history", [])
if meta.get("detection"):
    hist.append({"before_strengthening": meta["detection"]})
meta["detection_history"] = hist
new = dict(meta.get("detection", {}))
new.update(r.get("checks", {}))
meta["detection"] = new
json.dump(meta, open(mp, "w"), indent=1)
print(sid, json.dumps(r.get("checks", {})))
