#!/usr/bin/env python3
"""keepseed.py <seed_dir> <id> <pids...>: runs seedtest and, if the seed is confirmed (applies, suite green, demo fails
with / passes without), stores it under /verif/seeded/<id>/ with the detection result."""
import json, os, shutil, subprocess, sys
seed, sid, pids = sys.argv[1], sys.argv[2], sys.argv[3:]
out = subprocess.run([sys.executable, os.path.join(os.path.dirname(__file__), "seedtest.py"), seed] + pids,
                     stdout=subprocess.PIPE, text=True).stdout.strip().splitlines()[-1]
r = json.loads(out)
ok = r.get("applies") and r.get("demo_passes_unpatched") and r.get("demo_fails_patched") and r.get("suite_passes_patched")
print(json.dumps(r))
if not ok:
    print("NOT KEPT (not confirmed)"); sys.exit(1)
dst = os.path.join("/verif/seeded", sid)
os.makedirs(dst, exist_ok=True)
shutil.copy(os.path.join(seed, "patch.diff"), dst)
shutil.copy(os.path.join(seed, "demo.rs"), dst)
meta = {}
mp = os.path.join(seed, "meta.json")
if os.path.exists(mp):
    try:
        meta = json.load(open(mp))
    except Exception:
        meta = {"raw": open(mp).read()}
meta["confirmed_by_me"] = {"applies_to_repo_head": True, "existing_suite_passes_with_patch": True,
                           "demo_fails_with_patch": True, "demo_passes_without_patch": True,
                           "ran": ["git -C /repo apply patch.diff", "cargo test --workspace --no-fail-fast --offline",
                                   "cp demo.rs /repo/tests/seed_demo.rs && cargo test --offline --test seed_demo",
                                   "git -C /repo reset --hard HEAD"] + ["./check.py %s" % p for p in pids]}
meta["detection"] = r.get("checks", {})
json.dump(meta, open(os.path.join(dst, "meta.json"), "w"), indent=1)
print("KEPT", dst)
