# see spec/Names.tla; regenerate by running the snippet in DESIGN.md appendix
