#!/usr/bin/env python3
"""seedtest.py <seed_dir> <pid> [more pids...]: applies a seeded defect to /repo, confirms it compiles, passes the
existing tests and fails its demonstration, runs the quick checks of the given properties, and undoes it."""
import json, os, subprocess, sys, shutil, time
seed = os.path.abspath(sys.argv[1]); pids = sys.argv[2:]
def sh(cmd, cwd=None, timeout=3000):
    p = subprocess.run(cmd, shell=True, cwd=cwd, stdout=subprocess.PIPE, stderr=subprocess.STDOUT, text=True, timeout=timeout)
    return p.returncode, p.stdout
res = {"seed": seed}
demo = os.path.join(seed, "demo.rs")
try:
    # demo on the unchanged tree
    shutil.copy(demo, "/repo/tests/seed_demo.rs")
    uses_hook = "astrolabe_verif" in open(demo).read()
    DEMO = ("RUSTFLAGS='--cfg astrolabe_verif' CARGO_TARGET_DIR=/repo/target/verifcfg " if uses_hook else "") + \
           "cargo test --offline --test seed_demo 2>&1 | tail -8"
    rc, out = sh(DEMO, cwd="/repo")
    import re as _re
    ran = _re.findall(r"test result: ok\. (\d+) passed", out)
    res["demo_passes_unpatched"] = bool(ran) and int(ran[-1]) > 0
    rc, out = sh("git apply --check %s/patch.diff" % seed, cwd="/repo")
    res["applies"] = rc == 0
    if rc != 0:
        res["apply_error"] = out[-500:]
        print(json.dumps(res)); sys.exit(0)
    sh("git apply %s/patch.diff" % seed, cwd="/repo")
    rc, out = sh(DEMO, cwd="/repo")
    res["demo_fails_patched"] = "test result: FAILED" in out or "panicked" in out
    os.remove("/repo/tests/seed_demo.rs")
    rc, out = sh("cargo test --workspace --no-fail-fast --offline 2>&1 | grep -E 'test result|error' ", cwd="/repo")
    res["suite_passes_patched"] = ("FAILED" not in out) and ("error[" not in out) and out.count("test result: ok") >= 10
    res["checks"] = {}
    for pid in pids:
        t = time.time()
        rc, out = sh("./check.py %s" % pid, cwd="/verif")
        viol = [l for l in out.splitlines() if l.startswith("VIOLATION")]
        clauses = sorted(set(l.split("clause=")[1].split()[0] for l in out.splitlines() if l.strip().startswith("clause=")))
        res["checks"][pid] = {"rc": rc, "violations": len(viol), "clauses": clauses[:8], "wall_s": round(time.time() - t, 1)}
finally:
    if os.path.exists("/repo/tests/seed_demo.rs"):
        os.remove("/repo/tests/seed_demo.rs")
    sh("git reset -q --hard HEAD && git clean -fdq -e target", cwd="/repo")
    shutil.rmtree("/verif/replays", ignore_errors=True)
print(json.dumps(res))
