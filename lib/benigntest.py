#!/usr/bin/env python3
"""benigntest.py <dir with patch.diff + note.json> <id> <pid> [more pids...]: applies a behaviour-preserving change to
/repo, confirms the existing suite passes with it, runs the quick checks of the given properties (every one must stay
silent), undoes the change and stores the patch with the result under /verif/benign/<id>/ (replay files of any alarm
are kept there too so that the alarm can be analysed)."""
import json, os, shutil, subprocess, sys, time
src, bid, pids = os.path.abspath(sys.argv[1]), sys.argv[2], sys.argv[3:]
def sh(cmd, cwd=None, timeout=6000):
    p = subprocess.run(cmd, shell=True, cwd=cwd, stdout=subprocess.PIPE, stderr=subprocess.STDOUT, text=True, timeout=timeout)
    return p.returncode, p.stdout
dst = os.path.join("/verif/benign", bid)
os.makedirs(dst, exist_ok=True)
for f in ("patch.diff", "note.json"):
    if os.path.abspath(os.path.join(src, f)) != os.path.abspath(os.path.join(dst, f)):
        shutil.copy(os.path.join(src, f), dst)
res = {"id": bid}
try:
    rc, out = sh("git apply --check %s/patch.diff" % dst, cwd="/repo")
    res["applies"] = rc == 0
    if rc == 0:
        sh("git apply %s/patch.diff" % dst, cwd="/repo")
        rc, out = sh("cargo test --workspace --no-fail-fast --offline 2>&1 | grep -E 'test result|error' ", cwd="/repo")
        res["suite_passes_patched"] = ("FAILED" not in out) and ("error[" not in out) and out.count("test result: ok") >= 10
        res["checks"] = {}
        for pid in pids:
            t = time.time()
            rc, out = sh("./check.py %s" % pid, cwd="/verif")
            clauses = sorted(set(l.split("clause=")[1].split()[0] for l in out.splitlines() if l.strip().startswith("clause=")))
            res["checks"][pid] = {"rc": rc, "clauses": clauses[:8], "wall_s": round(time.time() - t, 1)}
            if rc != 0:
                open(os.path.join(dst, "alarm-%s.log" % pid), "w").write(out[-20000:])
                for l in out.splitlines():
                    if l.startswith("VIOLATION") and "replay=" in l:
                        rp = l.split("replay=")[1].strip()
                        if os.path.exists(rp):
                            shutil.copy(rp, os.path.join(dst, "alarm-%s-%s" % (pid, os.path.basename(rp))))
finally:
    sh("git reset -q --hard HEAD && git clean -fdq -e target", cwd="/repo")
    shutil.rmtree("/verif/replays", ignore_errors=True)
json.dump(res, open(os.path.join(dst, "result.json"), "w"), indent=1)
print(json.dumps(res))
