"""Infrastructure shared by all property checks: building the harness from /repo's working
tree, running TLC (model checking, generation, trace validation), known-findings matching,
VIOLATION reporting with replay files, and evidence files."""
import json, os, re, shutil, subprocess, sys, time, hashlib

VERIF = os.path.dirname(os.path.dirname(os.path.abspath(__file__)))
SPEC = os.path.join(VERIF, "spec")
HARNESS_DIR = os.path.join(VERIF, "harness")
EVIDENCE = os.path.join(VERIF, "evidence")
REPLAYS = os.path.join(VERIF, "replays")
TLA_CP = "/opt/veriftools/tla/tla2tools.jar:/opt/veriftools/tla/CommunityModules-deps.jar"


class ToolError(Exception):
    pass


def log(*a):
    print(*a, flush=True)


class Ctx:
    """One run of one property check."""

    def __init__(self, pid, tier, seed):
        self.pid = pid
        self.tier = tier
        self.seed = seed
        self.t0 = time.time()
        self.work = os.path.join(VERIF, "work", "%s-%d" % (pid, os.getpid()))
        shutil.rmtree(self.work, ignore_errors=True)
        os.makedirs(self.work, exist_ok=True)
        self.states = 0
        self.transitions = 0
        self.traces = 0
        self.evaluations = 0
        self.distinct = set()
        self.samples = []
        self.violations = []  # dicts: clause, witness (json), class
        self.known_hits = {}
        self.notes = []
        self.assumptions = []
        self.exhaustive = False
        self.extra = {}
        self.mc_runs = []

    @property
    def thorough(self):
        return self.tier == "thorough"

    def path(self, name):
        return os.path.join(self.work, name)

    def cleanup(self):
        shutil.rmtree(self.work, ignore_errors=True)

    def sample(self, s, limit=6):
        if len(self.samples) < limit:
            self.samples.append(s)

    def violation(self, clause, witness, cls=None):
        self.violations.append({"clause": clause, "witness": witness, "class": cls or clause})


# ------------------------------------------------------------------ harness build
_built = {}


def harness_bin(profile="release"):
    return os.path.join(HARNESS_DIR, "target", profile, "harness")


def build_harness(profile="release"):
    """Rebuilds the harness (and astrolabe, from /repo's current working tree, hooks on)."""
    if profile in _built:
        return harness_bin(profile)
    env = dict(os.environ)
    env["CARGO_NET_OFFLINE"] = "true"
    cmd = ["cargo", "build", "--offline", "--profile", profile] if profile != "release" else \
          ["cargo", "build", "--offline", "--release"]
    t = time.time()
    p = subprocess.run(cmd, cwd=HARNESS_DIR, env=env, stdout=subprocess.PIPE, stderr=subprocess.STDOUT, text=True)
    if p.returncode != 0:
        log(p.stdout[-4000:])
        raise ToolError("harness build failed (does /repo still compile with --cfg astrolabe_verif?)")
    log("[build] harness (%s) built in %.1fs" % (profile, time.time() - t))
    _built[profile] = True
    return harness_bin(profile)


class Hang(Exception):
    """A call into the code under test did not return (harness watchdog, exit status 3)."""
    def __init__(self, what, args):
        Exception.__init__(self, "hang")
        self.what, self.harness_args = what, args


# Every time-out below is a guard against a hang, sized for an idle 16-core machine; on a loaded machine (several
# checks at once) the same step can take several times longer, so all of them are scaled.
TIMEOUT_SCALE = float(os.environ.get("VERIF_TIMEOUT_SCALE", "4"))


def run_harness(args, profile="release", timeout=3600, env_extra=None, check=True):
    timeout = timeout * TIMEOUT_SCALE
    b = build_harness(profile)
    env = dict(os.environ)
    if env_extra:
        env.update({k: str(v) for k, v in env_extra.items()})
    t = time.time()
    p = subprocess.run([b] + [str(a) for a in args], stdout=subprocess.PIPE, stderr=subprocess.PIPE, text=True,
                       timeout=timeout, env=env)
    if p.returncode == 3:
        # the harness's watchdog: a call into the code under test did not return within the deadline
        last = [l for l in p.stdout.strip().splitlines() if l.startswith('{"k":"hang"') or l.startswith('{"k": "hang"')]
        what = json.loads(last[-1]) if last else {"k": "hang", "what": "unknown"}
        raise Hang(what, [str(a) for a in args])
    if check and p.returncode != 0:
        log(p.stdout[-2000:])
        log(p.stderr[-2000:])
        raise ToolError("harness %s exited with %d" % (args[0], p.returncode))
    log("[harness] %s %.1fs" % (" ".join(str(a) for a in args[:3]), time.time() - t))
    return p.stdout


def harness_json(args, **kw):
    out = run_harness(args, **kw)
    last = [l for l in out.strip().splitlines() if l.strip().startswith("{")]
    if not last:
        raise ToolError("harness %s produced no JSON summary" % args[0])
    return json.loads(last[-1])


# ------------------------------------------------------------------ TLC
import threading
_meta_lock = threading.Lock()
_meta_counter = [0]
STAT_RE = re.compile(r"(\d+) states generated, (\d+) distinct states found")


def run_tlc(ctx, module, cfg=None, env=None, workers=1, timeout=1800, heap="3g", extra=None, simulate=None,
            deque=False):
    """Runs TLC on spec/<module>.tla with spec/<cfg>.cfg. Returns (output, generated, distinct).
    Raises ToolError on any TLC error (a spec-sanity failure is a tool error, never a violation)."""
    cfg = cfg or module
    timeout = timeout * TIMEOUT_SCALE
    with _meta_lock:
        _meta_counter[0] += 1
        meta = ctx.path("tlc-%s-%d" % (cfg, _meta_counter[0]))
    # UTF-8 explicitly: with the C locale the JVM reads the specification's string literals and the JSON traces as
    # ASCII and every non-ASCII character silently becomes "?"
    cmd = ["java", "-Dfile.encoding=UTF-8", "-Dsun.jnu.encoding=UTF-8", "-XX:+UseParallelGC", "-Xss1g", "-Xmx" + heap]
    if deque:
        cmd.append("-Dtlc2.tool.queue.IStateQueue=StateDeque")
    cmd += ["-cp", TLA_CP, "tlc2.TLC", "-workers", str(workers), "-metadir", meta, "-cleanup",
            "-noGenerateSpecTE", "-config", os.path.join(SPEC, cfg + ".cfg")]
    if simulate:
        cmd += ["-simulate", simulate]
    if extra:
        cmd += extra
    cmd.append(os.path.join(SPEC, module + ".tla"))
    e = dict(os.environ)
    e.pop("JAVA_TOOL_OPTIONS", None)
    if env:
        e.update({k: str(v) for k, v in env.items()})
    t = time.time()
    try:
        p = subprocess.run(cmd, cwd=ctx.work, env=e, stdout=subprocess.PIPE, stderr=subprocess.STDOUT, text=True,
                           timeout=timeout)
    except subprocess.TimeoutExpired:
        raise ToolError("TLC timed out on %s/%s after %ds" % (module, cfg, timeout))
    out = p.stdout
    shutil.rmtree(meta, ignore_errors=True)
    ok = ("Model checking completed. No error has been found." in out) or \
         (simulate and "Error" not in out and p.returncode == 0)
    if not ok:
        tail = "\n".join(l for l in out.splitlines() if not l.startswith(("Parsing file", "Semantic processing",
                                                                           "Linting of")))[-3000:]
        log(tail)
        raise ToolError("TLC reported an error on %s/%s (specification sanity failure or tool problem)" % (module, cfg))
    gen = dist = 0
    m = STAT_RE.findall(out)
    if m:
        gen, dist = int(m[-1][0]), int(m[-1][1])
    log("[tlc] %s/%s: %d generated, %d distinct, %.1fs" % (module, cfg, gen, dist, time.time() - t))
    return out, gen, dist


def model_check(ctx, module, cfg=None, env=None, workers=4, timeout=1800, heap="4g"):
    """Exhaustive TLC run of an MC_* model; its statistics count as states/transitions of the evidence."""
    out, gen, dist = run_tlc(ctx, module, cfg, env=env, workers=workers, timeout=timeout, heap=heap)
    ctx.states += dist
    ctx.transitions += gen
    ctx.mc_runs.append({"model": module, "config": cfg or module, "states": dist, "transitions": gen})
    return out


def printed(out, tag):
    """Values printed by PrintT(<<"TAG", ...>>) lines."""
    res = []
    for l in out.splitlines():
        if l.startswith('<<"%s"' % tag):
            res.append(l)
    return res


def read_ndjson(path):
    rows = []
    if not os.path.exists(path):
        return rows
    with open(path) as f:
        for l in f:
            l = l.strip()
            if l:
                rows.append(json.loads(l))
    return rows


def write_ndjson(path, rows):
    with open(path, "w") as f:
        for r in rows:
            f.write(json.dumps(r) + "\n")


def validate_trace(ctx, module, trace, cfg=None, env=None, timeout=1800, heap="3g"):
    """Batch trace validation: TLC judges every record of `trace`, writes failing records to OUT."""
    out_path = trace + ".bad"
    e = {"TRACE": trace, "OUT": out_path}
    if env:
        e.update(env)
    out, _, _ = run_tlc(ctx, module, cfg, env=e, timeout=timeout, heap=heap)
    v = printed(out, "VALIDATED")
    if not v:
        raise ToolError("trace validator %s did not report VALIDATED" % module)
    m = re.search(r'"VALIDATED", (\d+)', v[-1])
    n = int(m.group(1))
    ctx.traces += 1
    return n, read_ndjson(out_path)


def parallel_validate(ctx, module, traces, cfg=None, env=None, jobs=10, timeout=1800):
    """Validates several trace shards in parallel TLC JVMs. Returns (events, bad records)."""
    from concurrent.futures import ThreadPoolExecutor
    total = 0
    bad = []
    with ThreadPoolExecutor(max_workers=jobs) as ex:
        futs = [ex.submit(validate_trace, ctx, module, t, cfg, env, timeout) for t in traces]
        for f in futs:
            n, b = f.result()
            total += n
            bad += b
    return total, bad


# ------------------------------------------------------------------ known findings
def load_findings(pid):
    p = os.path.join(VERIF, "known_findings.json")
    if not os.path.exists(p):
        return []
    data = json.load(open(p))
    return [f for f in data.get("findings", []) if f.get("property") == pid and f.get("status") == "open"]


def _get(d, dotted):
    cur = d
    for part in dotted.split("."):
        if isinstance(cur, dict) and part in cur:
            cur = cur[part]
        else:
            return None
    return cur


def finding_matches(f, v):
    """`match` is a conjunction of structural predicates over the violation record:
    {"clause": "...", "class_re": "...", "where": {"witness.path": value | {"re": ...} | {"in": [...]}}}"""
    m = f.get("match", {})
    if "clause" in m and m["clause"] != v["clause"]:
        return False
    if "clause_re" in m and not re.search(m["clause_re"], v["clause"]):
        return False
    if "class_re" in m and not re.search(m["class_re"], str(v.get("class"))):
        return False
    for path, want in m.get("where", {}).items():
        got = _get(v, path)
        if isinstance(want, dict) and "re" in want:
            if got is None or not re.search(want["re"], got if isinstance(got, str) else json.dumps(got)):
                return False
        elif isinstance(want, dict) and "in" in want:
            if got not in want["in"]:
                return False
        elif isinstance(want, dict) and "lt" in want:
            if got is None or not got < want["lt"]:
                return False
        elif isinstance(want, dict) and "ge" in want:
            if got is None or not got >= want["ge"]:
                return False
        elif got != want:
            return False
    return True


# ------------------------------------------------------------------ finishing a run
def finish(ctx, level="model_checking", rule="", trusted=None):
    findings = load_findings(ctx.pid)
    fresh = []
    for v in ctx.violations:
        hit = None
        for f in findings:
            if finding_matches(f, v):
                hit = f
                break
        if hit is not None:
            ctx.known_hits.setdefault(hit["id"], [hit, 0])[1] += v.get("count", 1)
        else:
            fresh.append(v)
    for fid, (f, n) in sorted(ctx.known_hits.items()):
        log("KNOWN-FINDING: property=%s %s [%s; %d occurrence(s) this run]" % (ctx.pid, f["what"], fid, n))
    os.makedirs(REPLAYS, exist_ok=True)
    shown = 0
    by_clause = {}
    for v in fresh:
        by_clause.setdefault(v["clause"], []).append(v)
    for clause, vs in sorted(by_clause.items()):
        for v in vs[:3]:
            h = hashlib.sha1(json.dumps(v, sort_keys=True).encode()).hexdigest()[:10]
            rp = os.path.join(REPLAYS, "%s-%s.json" % (ctx.pid, h))
            with open(rp, "w") as fh:
                json.dump({"property": ctx.pid, "tier": ctx.tier, "seed": ctx.seed, "clause": clause,
                           "class": v.get("class"), "witness": v["witness"], "count": v.get("count", 1)}, fh, indent=1)
            log("VIOLATION property=%s replay=%s" % (ctx.pid, rp))
            log("  clause=%s witness=%s" % (clause, json.dumps(v["witness"])[:600]))
            shown += 1
        if len(vs) > 3:
            log("  ... %d further violation record(s) of clause %s" % (len(vs) - 3, clause))
    nviol = sum(v.get("count", 1) for v in fresh)
    cov = {
        "states": max(ctx.states, 0),
        "transitions": max(ctx.transitions, 0),
        "traces_validated_against_impl": ctx.traces,
        "samples": ctx.samples[:8] if ctx.samples else [{"note": "no sample recorded"}],
        "evaluations": ctx.evaluations,
        "distinct_nontrivial": len(ctx.distinct),
        "rule": rule,
        "exhaustive": ctx.exhaustive,
        "model_checking_runs": ctx.mc_runs,
        "known_findings_hit": {k: n for k, (f, n) in ctx.known_hits.items()},
    }
    cov.update(ctx.extra)
    ev = {
        "property_id": ctx.pid,
        "tier": ctx.tier,
        "seed": ctx.seed,
        "level": level,
        "coverage": cov,
        "assumptions": ctx.assumptions + (trusted or []),
        "wall_s": round(time.time() - ctx.t0, 2),
        "violations": nviol,
    }
    os.makedirs(EVIDENCE, exist_ok=True)
    with open(os.path.join(EVIDENCE, ctx.pid + ".json"), "w") as fh:
        json.dump(ev, fh, indent=1)
    log("[%s] tier=%s evaluations=%d states=%d transitions=%d traces=%d violations=%d wall=%.1fs" % (
        ctx.pid, ctx.tier, ctx.evaluations, ctx.states, ctx.transitions, ctx.traces, nviol, time.time() - ctx.t0))
    ctx.cleanup()
    return 1 if fresh else 0
