#!/usr/bin/env python3
"""Regenerates the seeded-change table of DESIGN.md section 0.6 from /verif/seeded/*/meta.json."""
import json, os, re, sys
V = os.path.dirname(os.path.dirname(os.path.abspath(__file__)))
rows = []
for d in sorted(os.listdir(os.path.join(V, "seeded")), key=lambda x: (x.split("-")[0], x)):
    mp = os.path.join(V, "seeded", d, "meta.json")
    if not os.path.exists(mp):
        continue
    m = json.load(open(mp))
    det = m.get("detection", {})
    caught = []
    for pid, r in det.items():
        if r.get("rc") == 1:
            caught.append("%s (%s)" % (pid, ", ".join(c.split(".", 1)[1] if "." in c else c for c in r.get("clauses", [])[:3])))
    hist = m.get("detection_history")
    note = ""
    if hist:
        note = " *missed at first, caught after strengthening: %s*" % hist[0].get("note", "").replace("missed: ", "")
    summ = (m.get("summary") or "").replace("|", "/").replace("\n", " ")
    if len(summ) > 150:
        summ = summ[:147] + "..."
    verdict = "; ".join(caught) if caught else "**NOT caught**"
    if not caught and m.get("judgement"):
        # a seed the property text does not forbid (my judgement, with the reason): not detected on purpose
        verdict = "not flagged on purpose: " + m["judgement"]
    if not caught and m.get("undetected_reason"):
        verdict = "**NOT caught**: " + m["undetected_reason"]
    rows.append("| %s | %s | %s | %s%s |" % (d, m.get("property", "?"), summ, verdict, note))
table = "| seed | breaks | change | caught by (clauses) |\n| --- | --- | --- | --- |\n" + "\n".join(rows)
n = len(rows)
nc = sum(1 for r in rows if "NOT caught" not in r and "not flagged on purpose" not in r)
nj = sum(1 for r in rows if "not flagged on purpose" in r)
table += "\n\n%d seeded changes kept, %d caught by the quick check of their property, %d judged to lie outside the property text.\n" % (n, nc, nj)
p = os.path.join(V, "DESIGN.md")
s = open(p).read()
a = s.index("<!-- SEEDED-TABLE-BEGIN -->") if "<!-- SEEDED-TABLE-BEGIN -->" in s else None
if a is None:
    s = s.replace("SEEDED_TABLE_PLACEHOLDER", "<!-- SEEDED-TABLE-BEGIN -->\n" + table + "\n<!-- SEEDED-TABLE-END -->")
else:
    b = s.index("<!-- SEEDED-TABLE-END -->")
    s = s[:a] + "<!-- SEEDED-TABLE-BEGIN -->\n" + table + "\n" + s[b:]
open(p, "w").write(s)
print(n, "rows,", nc, "caught")
