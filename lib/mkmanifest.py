#!/usr/bin/env python3
"""Regenerates /verif/MANIFEST.json from the table below (single source of truth for the interface)."""
import json, os, subprocess
V = os.path.dirname(os.path.dirname(os.path.abspath(__file__)))
props = [json.loads(l) for l in open(os.path.join(V, "properties.jsonl"))]

TRUST = ("TLC 1.8 and the CommunityModules Json/IOUtils operators; the Rust harness for driving calls, projecting "
         "results through public getters and re-encoding numbers/text (no expected value is computed outside TLA+ "
         "except the 400-year table extension, which TLC re-validates on every run); rustc/cargo.")

CHECKS = {
 "C01": dict(cat="model_checking", tech="TLA+ calendar spec (successor machine = closed forms, TLC-exhaustive over 800 years + periodicity) ; TLC-generated 400-year table as oracle for an exhaustive 2^32-day sweep of the real code; TLC-judged observation logs and TLC-generated constructor cases",
             text="The specification's calendar (module Civil) is model-checked exhaustively (walk over two full 400-year cycles, closed forms = successor machine in every state, periodicity lemma), and the implementation is bound to it three ways: all 2^32 day numbers are read back and rebuilt and compared with the TLC-generated cycle table, from_ymd is swept over the whole (year, month 0..13, day 0..32) space, and sampled observations plus TLC-generated boundary cases are judged by TLC itself. A full enumeration of the quantifier is the right level for a bijection claim over a finite domain.",
             ref="5 (C01), 4.3"),
 "C02": dict(cat="model_checking", tech="TLA+ calendar spec (weekday/day-of-year/ISO-week successor machine vs closed forms, TLC-exhaustive); exhaustive 2^32-day sweep of weekday/day_of_year (+ format fields) against the TLC-generated table; TLC-judged logs; TLC-generated set_day_of_year cases",
             text="Weekday, day of year and ISO week are defined by the successor machine (anchor Thursday 1970-01-01, week 1 = week whose Thursday is in the first 7 days) and the closed forms are TLC-checked against it over 800 years; the real getters are swept over all 2^32 days, the w/q/e/D format fields over every 37th day (all days in thorough), and set_day_of_year(0..367) over the years, with TLC-computed expectations.",
             ref="5 (C02), 4.3"),
}

checks = []
for p in props:
    pid = p["id"]
    if pid not in CHECKS:
        continue
    c = CHECKS[pid]
    checks.append({
        "property_id": pid,
        "quick_cmd": "./check.py %s --tier quick" % pid,
        "thorough_cmd": "./check.py %s --tier thorough" % pid,
        "evidence_file": "/verif/evidence/%s.json" % pid,
        "replay_cmd_template": "./check.py %s --replay {path}" % pid,
        "engine": "tla-conformance",
        "level_claimed": {"category": c["cat"], "text": c["text"], "design_ref": "DESIGN.md section " + c["ref"]},
        "level_note": c.get("note", TRUST),
        "technique": c["tech"],
    })

NA = {}
hooks_commits = []
try:
    out = subprocess.run(["git", "-C", "/repo", "log", "--format=%H %s"], stdout=subprocess.PIPE, text=True).stdout
    hooks_commits = [l.split()[0] for l in out.splitlines() if " verif-hook:" in l]
except Exception:
    pass

m = {
 "version": 1,
 "setup_cmd": "./setup.sh",
 "hooks": {"guard": "astrolabe_verif",
           "enable": "rustc --cfg astrolabe_verif, set in /verif/harness/.cargo/config.toml (build.rustflags); every check rebuilds the harness and astrolabe from /repo's working tree",
           "baseline_off_cmd": "cd /repo && cargo test --workspace --no-fail-fast --offline",
           "source_commits": hooks_commits,
           "add_only": True},
 "engines": [{"name": "tla-conformance", "path": "/verif/check.py",
              "serves_properties": [c["property_id"] for c in checks],
              "kind_free_text": "explicit TLA+ specification (/verif/spec) checked by TLC, bound to the code by (A) replay of TLC-generated cases, (B) TLC validation of recorded executions, (C) exhaustive sweeps against TLC-generated tables"}],
 "checks": checks,
 "notes": "See DESIGN.md. Exit codes: 0 held, 1 VIOLATION, 2 tool error. known_findings.json lists genuine defects (fixed or open).",
 "not_applicable": [{"property_id": p["id"], "reason": NA.get(p["id"], "check under construction in this round (specification module planned in DESIGN.md section 5); not claimed until its conformance run exists")}
                    for p in props if p["id"] not in CHECKS],
}
json.dump(m, open(os.path.join(V, "MANIFEST.json"), "w"), indent=1)
print("checks:", [c["property_id"] for c in checks])
