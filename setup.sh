#!/bin/sh
# Builds the conformance harness offline from files on disk only.
set -e
cd "$(dirname "$0")"
exec python3 check.py --setup
