------------------------------- MODULE Civil -------------------------------
(***************************************************************************)
(* The proleptic Gregorian calendar as astrolabe documents it: day number  *)
(* dn = days since 0001-01-01 (dn = 0), any 32-bit dn; year labels skip 0  *)
(* (year -1 is directly followed by year 1).                               *)
(*                                                                         *)
(* Two independent descriptions:                                           *)
(*  (a) the successor machine Tomorrow over                                *)
(*      [dn, y, m, d, wd, doy, wk] - the DEFINITION of the calendar,       *)
(*  (b) closed forms Dn2Ymd, Ymd2Dn, Weekday, Doy, IsoWeek ... written     *)
(*      overflow-safe for TLC's 32-bit integers - what validators use at   *)
(*      arbitrary day numbers.                                             *)
(* MC_Civil checks (b) against (a) over complete 400-year cycles on both   *)
(* sides of the era boundary; MC_CivilPeriod checks that (b) is 400-year   *)
(* periodic, which extends the agreement to all 2^32 day numbers.          *)
(***************************************************************************)
EXTENDS Integers, Sequences

MinDn == -2147483647 - 1
MaxDn == 2147483647
DaysPerEra == 146097
UnixEpochDn == 719162           \* 1970-01-01

\* @type: <<Int, Int, Int>>;
MinYmd == <<-5879611, 6, 23>>
\* @type: <<Int, Int, Int>>;
MaxYmd == <<5879611, 7, 12>>

Astro(y) == IF y < 0 THEN y + 1 ELSE y          \* label -> astronomical year
Label(a) == IF a <= 0 THEN a - 1 ELSE a         \* astronomical year -> label

IsLeapAstro(a) == a % 4 = 0 /\ (a % 100 # 0 \/ a % 400 = 0)
IsLeap(y) == IsLeapAstro(Astro(y))
YearLen(y) == IF IsLeap(y) THEN 366 ELSE 365

MonthLen(y, m) == CASE m \in {1, 3, 5, 7, 8, 10, 12} -> 31
                    [] m \in {4, 6, 9, 11} -> 30
                    [] OTHER -> IF IsLeap(y) THEN 29 ELSE 28

\* @type: Seq(Int);
CumCommon == <<0, 31, 59, 90, 120, 151, 181, 212, 243, 273, 304, 334>>
\* @type: Seq(Int);
CumLeap   == <<0, 31, 60, 91, 121, 152, 182, 213, 244, 274, 305, 335>>
CumDays(y, m) == IF IsLeap(y) THEN CumLeap[m] ELSE CumCommon[m]

NextYear(y) == IF y = -1 THEN 1 ELSE y + 1
PrevYear(y) == IF y = 1 THEN -1 ELSE y - 1

(***************************************************************************)
(* (a) Successor machine                                                   *)
(***************************************************************************)
\* @type: (Int, Int) => { dn: Int, y: Int, m: Int, d: Int, wd: Int, doy: Int, wk: Int };
CivilStart(dn0, y0) == [dn |-> dn0, y |-> y0, m |-> 1, d |-> 1, wd |-> 1, doy |-> 1, wk |-> 1]
\* Both 0001-01-01 (dn 0) and -0400-01-01 (dn -146097) are Mondays that start ISO week 1.

\* @type: { dn: Int, y: Int, m: Int, d: Int, wd: Int, doy: Int, wk: Int } => { dn: Int, y: Int, m: Int, d: Int, wd: Int, doy: Int, wk: Int };
Tomorrow(s) ==
  LET lastOfMonth == s.d = MonthLen(s.y, s.m)
      y2  == IF lastOfMonth /\ s.m = 12 THEN NextYear(s.y) ELSE s.y
      m2  == IF lastOfMonth THEN (IF s.m = 12 THEN 1 ELSE s.m + 1) ELSE s.m
      d2  == IF lastOfMonth THEN 1 ELSE s.d + 1
      wd2 == (s.wd + 1) % 7                         \* 0 = Sunday
      doy2 == IF m2 = 1 /\ d2 = 1 THEN 1 ELSE s.doy + 1
      \* the ISO week changes on Mondays only; it is week 1 iff its Thursday
      \* (three days on) is one of the first seven days of a year
      thu == doy2 + 3
      wk2 == IF wd2 # 1 THEN s.wk
             ELSE IF thu > YearLen(y2) \/ thu <= 7 THEN 1 ELSE s.wk + 1
  IN [dn |-> s.dn + 1, y |-> y2, m |-> m2, d |-> d2, wd |-> wd2, doy |-> doy2, wk |-> wk2]

(***************************************************************************)
(* (b) Closed forms.  Era e = astronomical years 400e+1 .. 400e+400,       *)
(* first day dn = 146097 * e.                                              *)
(***************************************************************************)
EraOf(dn) == dn \div DaysPerEra                   \* floor
DoE(dn) == dn % DaysPerEra                        \* 0 .. 146096
CoE(doe) == IF doe = 146096 THEN 3 ELSE doe \div 36524
DoC(doe) == doe - 36524 * CoE(doe)
QoC(doc) == IF doc \div 1461 = 25 THEN 24 ELSE doc \div 1461
DoQ(doc) == doc - 1461 * QoC(doc)
YoQ(doq) == IF doq = 1460 THEN 3 ELSE doq \div 365
YoE(doe) == 100 * CoE(doe) + 4 * QoC(DoC(doe)) + YoQ(DoQ(DoC(doe)))

YearOf(dn) == Label(400 * EraOf(dn) + YoE(DoE(dn)) + 1)
Doy(dn) == LET q == DoQ(DoC(DoE(dn))) IN q - 365 * YoQ(q) + 1

MonthFromDoy(leap, doy) ==
  LET c == IF leap THEN CumLeap ELSE CumCommon
  IN CHOOSE m \in 1..12 : c[m] < doy /\ (m = 12 \/ doy <= c[m + 1])

MonthOf(dn) == MonthFromDoy(IsLeap(YearOf(dn)), Doy(dn))
DayOf(dn) == Doy(dn) - CumDays(YearOf(dn), MonthOf(dn))

\* @type: Int => <<Int, Int, Int>>;
Dn2Ymd(dn) == LET y == YearOf(dn)
                  doy == Doy(dn)
                  m == MonthFromDoy(IsLeap(y), doy)
              IN <<y, m, doy - CumDays(y, m)>>

\* @type: (<<Int, Int, Int>>, <<Int, Int, Int>>) => Bool;
LexLe(a, b) == \/ a[1] < b[1]
               \/ (a[1] = b[1] /\ a[2] < b[2])
               \/ (a[1] = b[1] /\ a[2] = b[2] /\ a[3] <= b[3])

ValidYmd(y, m, d) == y # 0 /\ m \in 1..12 /\ d >= 1 /\ d <= MonthLen(y, m)
InRange(y, m, d) == LexLe(MinYmd, <<y, m, d>>) /\ LexLe(<<y, m, d>>, MaxYmd)
ValidDate(y, m, d) == ValidYmd(y, m, d) /\ InRange(y, m, d)

\* requires ValidDate(y, m, d); no intermediate leaves 32 bits
Ymd2Dn(y, m, d) ==
  LET p == Astro(y) - 1
      e == p \div 400
      yoe == p % 400
      within == 365 * yoe + (yoe \div 4) - (yoe \div 100) + CumDays(y, m) + d - 1
  IN IF e < 0 THEN DaysPerEra * (e + 1) + (within - DaysPerEra) ELSE DaysPerEra * e + within

Weekday(dn) == ((dn % 7) + 1) % 7                 \* 0 = Sunday; 0001-01-01 is a Monday
Mwd(dn) == dn % 7                                 \* 0 = Monday
Quarter(m) == ((m - 1) \div 3) + 1

\* ISO-8601 week: the week (Monday..Sunday) belongs to the year of its Thursday
IsoWeek(dn) ==
  LET y == YearOf(dn)
      t == Doy(dn) + 3 - Mwd(dn)                  \* this week's Thursday as a day-of-year of y
  IN IF t < 1 THEN ((t + YearLen(PrevYear(y)) - 1) \div 7) + 1
     ELSE IF t > YearLen(y) THEN 1
     ELSE ((t - 1) \div 7) + 1

\* day-of-year addressing
ValidYearDoy(y, n) ==
  /\ y # 0 /\ y >= MinYmd[1] /\ y <= MaxYmd[1] /\ n >= 1 /\ n <= YearLen(y)
  /\ (y = MinYmd[1] => n >= 174)                  \* -5879611-06-23 is day 174
  /\ (y = MaxYmd[1] => n <= 193)                  \* 5879611-07-12 is day 193
YearDoy2Dn(y, n) == LET m == MonthFromDoy(IsLeap(y), n) IN Ymd2Dn(y, m, n - CumDays(y, m))

\* the year exists in the calendar and day n exists in it (representable or not)
DoyExists(y, n) == y # 0 /\ n >= 1 /\ n <= YearLen(y)
=============================================================================
