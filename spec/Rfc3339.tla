------------------------------ MODULE Rfc3339 ------------------------------
(***************************************************************************)
(* RFC 3339 `date-time` (C13):                                             *)
(*   date-time = 4DIGIT "-" 2DIGIT "-" 2DIGIT "T" 2DIGIT ":" 2DIGIT ":"    *)
(*               2DIGIT ["." 1*DIGIT] ("Z" / ("+" / "-") 2DIGIT ":" 2DIGIT)*)
(* Parse(s) = [k |-> "ok", y, m, d, h, mi, s, frac (digits), off]          *)
(*          | [k |-> "range"]   grammatical, a field out of range          *)
(*          | [k |-> "any"]     grammatical but outside what C13 speaks    *)
(*                              about: second 60, year 0000, t / z         *)
(*          | [k |-> "no"]      not a date-time                            *)
(***************************************************************************)
EXTENDS Integers, Sequences, Text, Civil

D2(s, i) == IF IsDigit(s[i]) /\ IsDigit(s[i + 1]) THEN DigitVal(s[i]) * 10 + DigitVal(s[i + 1]) ELSE -1
D4(s, i) == IF \A j \in i..(i + 3) : IsDigit(s[j])
            THEN DigitVal(s[i]) * 1000 + DigitVal(s[i + 1]) * 100 + DigitVal(s[i + 2]) * 10 + DigitVal(s[i + 3]) ELSE -1

RECURSIVE DigitRun(_, _)
DigitRun(s, i) == IF i <= Len(s) /\ IsDigit(s[i]) THEN DigitRun(s, i + 1) ELSE i     \* first index after the digits

No == [k |-> "no"]

ParseRfc(s) ==
  IF Len(s) < 20 THEN No ELSE
  LET y == D4(s, 1)  m == D2(s, 6)  d == D2(s, 9)  h == D2(s, 12)  mi == D2(s, 15)  sec == D2(s, 18)
      fixedOk == /\ y >= 0 /\ m >= 0 /\ d >= 0 /\ h >= 0 /\ mi >= 0 /\ sec >= 0
                 /\ s[5] = "-" /\ s[8] = "-" /\ s[11] \in {"T", "t"} /\ s[14] = ":" /\ s[17] = ":"
  IN IF ~fixedOk THEN No ELSE
  LET hasFrac == s[20] = "."
      fEnd == IF hasFrac THEN DigitRun(s, 21) ELSE 20         \* index of the offset part
      frac == IF hasFrac THEN CharsToDigits(SubSeq(s, 21, fEnd - 1)) ELSE <<>>
      z == SubSeq(s, fEnd, Len(s))
  IN IF hasFrac /\ frac = <<>> THEN No
     ELSE IF z = <<>> THEN No
     ELSE LET zulu == Len(z) = 1 /\ z[1] \in {"Z", "z"}
              numeric == Len(z) = 6 /\ z[1] \in {"+", "-"} /\ z[4] = ":" /\ D2(z, 2) >= 0 /\ D2(z, 5) >= 0
          IN IF ~zulu /\ ~numeric THEN No ELSE
          LET oh == IF numeric THEN D2(z, 2) ELSE 0
              om == IF numeric THEN D2(z, 5) ELSE 0
              off == (IF numeric /\ z[1] = "-" THEN -1 ELSE 1) * (oh * 3600 + om * 60)
              lower == s[11] = "t" \/ (zulu /\ z[1] = "z")
              inRange == /\ m \in 1..12 /\ d >= 1 /\ (y >= 1 => d <= MonthLen(y, IF m \in 1..12 THEN m ELSE 1))
                         /\ h <= 23 /\ mi <= 59 /\ sec <= 60 /\ oh <= 23 /\ om <= 59
          IN IF ~inRange THEN [k |-> "range"]
             ELSE IF lower \/ sec = 60 \/ y = 0 THEN [k |-> "any"]
             ELSE [k |-> "ok", y |-> y, m |-> m, d |-> d, h |-> h, mi |-> mi, s |-> sec, frac |-> frac, off |-> off]

\* nanoseconds denoted by the first nine fraction digits (truncation), and whether anything is cut off
RECURSIVE FracNs(_, _, _)
FracNs(frac, i, acc) == IF i > 9 THEN acc
                        ELSE FracNs(frac, i + 1, acc * 10 + (IF i <= Len(frac) THEN frac[i] ELSE 0))
CutOff(frac) == \E i \in 10..Len(frac) : frac[i] # 0

\* local reading denoted by a parsed timestamp: <<dn, sod, ns>> (truncated)
LocalOfParsed(r) == <<Ymd2Dn(r.y, r.m, r.d), r.h * 3600 + r.mi * 60 + r.s, FracNs(r.frac, 1, 0)>>
=============================================================================
