SPECIFICATION TraceSpec
CONSTANTS
  R <- RealR
  DnLo <- RealLo
  DnHi <- RealHi
INVARIANT Done
CHECK_DEADLOCK FALSE
