------------------------------- MODULE MC_Cron -------------------------------
(***************************************************************************)
(* The cron iterator as a state machine: the environment advances the      *)
(* clock by d >= 0 seconds (Tick), the user calls next() (CallNext, which  *)
(* remembers its result in `last`).  One model step = Tick then CallNext.  *)
(* Every step asserts C17: the result matches the schedule, carries zero   *)
(* seconds (it is a whole minute by construction), is strictly later than  *)
(* the current minute and than the previous result, and NO matching minute *)
(* lies in between - the latter stated set-theoretically, independently of *)
(* the arithmetic search in Cron!NextFire.                                 *)
(***************************************************************************)
EXTENDS Cron, TLC

CONSTANTS MaxCalls
VARIABLES sched, clock, last, calls
vars == <<sched, clock, last, calls>>

S(mi, h, dom, mo, dow) == <<mi, h, dom, mo, dow>>
All(k) == FullSet(k)
Scheds == { S(All(1), All(2), All(3), All(4), All(5)),                      \* * * * * *
            S({0, 30}, {9, 17}, All(3), All(4), {1, 2, 3, 4, 5}),           \* 0,30 9,17 * * 1-5
            S({0}, {0}, {1}, All(4), All(5)),                               \* 0 0 1 * *
            S({0}, {12}, {31}, All(4), All(5)),                             \* 0 12 31 * *
            S({5}, {4}, {13}, All(4), {5}),                                 \* 5 4 13 * 5   (dom OR dow)
            S({0}, {0}, {29}, {2}, All(5)),                                 \* 0 0 29 2 *
            S({59}, {23}, {31}, {12}, All(5)),                              \* 59 23 31 12 *
            S({v \in All(1) : v % 15 = 0}, All(2), All(3), {1, 6}, All(5)), \* */15 * * 1,6 *
            S({0}, {6}, All(3), All(4), {0}),                               \* 0 6 * * 0
            S({1}, {1}, {1, 15}, {3}, {1}),                                 \* 1 1 1,15 3 1
            S(All(1), {23}, {28, 29, 30}, {2, 4}, All(5)),                  \* * 23 28-30 2,4 *
            S({45}, {0, 12}, All(3), {12}, {6}) }                           \* 45 0,12 * 12 6
Starts == { <<Ymd2Dn(2022, 1, 1), 0>>, <<Ymd2Dn(2023, 12, 31), 86399>>, <<Ymd2Dn(2024, 2, 28), 86340>>,
            <<Ymd2Dn(2024, 2, 29), 43259>>, <<Ymd2Dn(2021, 3, 31), 61201>>, <<Ymd2Dn(1970, 1, 1), 1>>,
            <<Ymd2Dn(2100, 2, 28), 86399>>, <<Ymd2Dn(2022, 5, 13), 14700>> }
Advances == {0, 1, 30, 60, 3599, 86400, 2678400}

Init == sched \in Scheds /\ clock \in Starts /\ last = NoLast /\ calls = 0

Advance(c, d) == LET t == c[2] + d IN <<c[1] + (t \div 86400), t % 86400>>

MinutesOfDay(s) == {h * 60 + m : h \in s[2], m \in s[1]}
\* no matching minute strictly between lb and r
NothingBetween(s, lb, r) ==
  /\ \A dn \in (lb[1] + 1)..(r[1] - 1) : ~DayMatches(s, dn)
  /\ (DayMatches(s, lb[1]) => \A t \in MinutesOfDay(s) : ~(t > lb[2] /\ (lb[1] < r[1] \/ t < r[2])))
  /\ (lb[1] < r[1] => \A t \in MinutesOfDay(s) : ~(t < r[2]))

StepOK(s, c, l, r) ==
  LET lb == TMax(<<c[1], c[2] \div 60>>, l) IN
  /\ r[1] >= 0
  /\ Matches(s, r)
  /\ TLess(<<c[1], c[2] \div 60>>, r) /\ TLess(l, r)
  /\ NothingBetween(s, lb, r)

Next == /\ calls < MaxCalls
        /\ \E d \in Advances :
             LET c == Advance(clock, d)
                 r == IterNext(sched, c, last)
             IN /\ Assert(StepOK(sched, c, last, r), <<"C17 step violated", sched, c, last, r>>)
                /\ clock' = c /\ last' = r /\ calls' = calls + 1 /\ UNCHANGED sched

Spec == Init /\ [][Next]_vars

\* the hierarchical search agrees with a minute-by-minute scan (evaluated once, on a 2-day budget)
ASSUME \A s \in Scheds, c \in Starts :
         LET lb == <<c[1], c[2] \div 60>>
             brute == ScanFrom(s, lb, 300)
         IN brute[1] >= 0 => NextFire(s, lb) = brute
ASSUME \A s \in Scheds : Satisfiable(s)
ASSUME ~Satisfiable(S({0}, {0}, {31}, {2, 4}, All(5))) /\ ~Satisfiable(S({0}, {0}, {30, 31}, {2}, All(5)))
=============================================================================
