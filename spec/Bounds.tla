------------------------------- MODULE Bounds -------------------------------
(***************************************************************************)
(* C15, second clause: when the text of an OutOfRange error states a range *)
(* `A..=B`, that range contains every accepted value of some argument and  *)
(* excludes the rejected value of that argument.                           *)
(*                                                                         *)
(* AcceptedHull(e, a, p) is the interval hull [lo, hi] (wide) of the       *)
(* values v of parameter p for which the call e, applied to operand a,     *)
(* with p := v and every other argument unchanged, is accepted - or Empty. *)
(***************************************************************************)
EXTENDS Ops, Text

Empty == [empty |-> TRUE]
Hull(lo, hi) == [empty |-> FALSE, lo |-> lo, hi |-> hi]
HullInts(lo, hi) == Hull(FromInt(lo), FromInt(hi))
\* hull of a finite set of native integers
HullOfSet(S) == IF S = {} THEN Empty
                ELSE HullInts(CHOOSE x \in S : \A y \in S : x <= y, CHOOSE x \in S : \A y \in S : x >= y)

\* ---- the stated range ------------------------------------------------------
RECURSIVE FindDots(_, _)
FindDots(cs, i) == IF i + 2 > Len(cs) THEN 0
                   ELSE IF cs[i] = "." /\ cs[i + 1] = "." /\ cs[i + 2] = "=" THEN i ELSE FindDots(cs, i + 1)
RECURSIVE DigitsLeft(_, _)
DigitsLeft(cs, i) == IF i >= 1 /\ IsDigit(cs[i]) THEN DigitsLeft(cs, i - 1) ELSE i      \* index before the numeral
RECURSIVE DigitsRight(_, _)
DigitsRight(cs, i) == IF i <= Len(cs) /\ IsDigit(cs[i]) THEN DigitsRight(cs, i + 1) ELSE i   \* index after the numeral

StatedRange(msg) ==
  LET i == FindDots(msg, 1) IN
  IF i = 0 THEN [has |-> FALSE] ELSE
  LET l0 == DigitsLeft(msg, i - 1)
      lneg == l0 >= 1 /\ msg[l0] = "-"
      lo == FromDigits(CharsToDigits(SubSeq(msg, l0 + 1, i - 1)))
      r0 == i + 3
      rneg == r0 <= Len(msg) /\ msg[r0] = "-"
      r1 == IF rneg THEN r0 + 1 ELSE r0
      r2 == DigitsRight(msg, r1)
      hi == FromDigits(CharsToDigits(SubSeq(msg, r1, r2 - 1)))
  IN IF l0 + 1 > i - 1 \/ r1 > r2 - 1 THEN [has |-> FALSE]
     ELSE [has |-> TRUE, lo |-> (IF lneg THEN Neg(lo) ELSE lo), hi |-> (IF rneg THEN Neg(hi) ELSE hi)]

Within(v, sr) == Cmp(sr.lo, v) <= 0 /\ Cmp(v, sr.hi) <= 0
HullWithin(h, sr) == h.empty \/ (Cmp(sr.lo, h.lo) <= 0 /\ Cmp(h.hi, sr.hi) <= 0)

\* ---- accepted values -------------------------------------------------------
SmallIn(w, lo, hi) == IsSmall(w) /\ Small(w) >= lo /\ Small(w) <= hi

YearHull(m, d) ==
  IF ~(m \in 1..12 /\ d \in 1..31) THEN Empty ELSE
  LET low == {y \in MinYmd[1]..(MinYmd[1] + 8) : ValidDate(y, m, d)}
      high == {y \in (MaxYmd[1] - 8)..MaxYmd[1] : ValidDate(y, m, d)}
  IN IF low = {} \/ high = {} THEN Empty
     ELSE HullInts(CHOOSE x \in low : \A y \in low : x <= y, CHOOSE x \in high : \A y \in high : x >= y)
MonthHull(y, d) == IF ~(y >= MinYmd[1] /\ y <= MaxYmd[1] /\ d \in 1..31) THEN Empty
                   ELSE HullOfSet({m \in 1..12 : ValidDate(y, m, d)})
DayHull(y, m) == IF ~(y >= MinYmd[1] /\ y <= MaxYmd[1] /\ m \in 1..12) THEN Empty
                 ELSE HullOfSet({d \in 1..31 : ValidDate(y, m, d)})
DoyHull(y) == IF ~(y >= MinYmd[1] /\ y <= MaxYmd[1]) THEN Empty ELSE HullOfSet({n \in 1..366 : ValidYearDoy(y, n)})

SmallOr(w, dflt) == IF IsSmall(w) THEN Small(w) ELSE dflt   \* a value that is certainly invalid when w is huge

YmdHull(e, p) ==
  LET y == SmallOr(e.y, 0)  m == SmallOr(e.m, 0)  d == SmallOr(e.d, 0) IN
  CASE p = "y" -> YearHull(m, d) [] p = "m" -> MonthHull(y, d) [] p = "d" -> DayHull(y, m)

HmsValid(e) == HmsOk(e.h, e.mi, e.s)
HmsHull(e, p) ==
  CASE p = "h"  -> IF SmallIn(e.mi, 0, 59) /\ SmallIn(e.s, 0, 59) THEN HullInts(0, 23) ELSE Empty
    [] p = "mi" -> IF SmallIn(e.h, 0, 23) /\ SmallIn(e.s, 0, 59) THEN HullInts(0, 59) ELSE Empty
    [] p = "s"  -> IF SmallIn(e.h, 0, 23) /\ SmallIn(e.mi, 0, 59) THEN HullInts(0, 59) ELSE Empty

FieldHull(a, f) ==       \* accepted values of set_<f> on value a (date fields: its local date)
  IF f \in ClockFields THEN HullInts(0, ClockMax(f)) ELSE
  LET dn == IF a.ty = "date" THEN a.dn ELSE LocalOf(InstOf(a), a.off).dn
      ymd == Dn2Ymd(dn)
  IN CASE f = "year" -> YearHull(ymd[2], ymd[3]) [] f = "month" -> MonthHull(ymd[1], ymd[3])
       [] f = "day" -> DayHull(ymd[1], ymd[2]) [] f = "doy" -> DoyHull(ymd[1])

Params(e) ==
  CASE e.op \in {"date_from_ymd", "dt_from_ymd"} -> {"y", "m", "d"}
    [] e.op \in {"dt_from_hms", "time_from_hms", "off_from_hms"} -> {"h", "mi", "s"}
    [] e.op = "dt_from_ymdhms" -> {"y", "m", "d", "h", "mi", "s"}
    [] e.op \in {"time_from_seconds", "off_from_seconds"} -> {"s"}
    [] e.op = "time_from_nanos" -> {"n"}
    [] e.op \in {"dt_set", "date_set", "time_set"} -> {"v"}

AcceptedHull(e, a, p) ==
  CASE e.op \in {"date_from_ymd", "dt_from_ymd"} -> YmdHull(e, p)
    [] e.op \in {"dt_from_hms", "time_from_hms"} -> HmsHull(e, p)
    [] e.op = "dt_from_ymdhms" ->
         IF p \in {"y", "m", "d"} THEN (IF HmsValid(e) THEN YmdHull(e, p) ELSE Empty)
         ELSE (IF FromYmdOk(e.y, e.m, e.d) THEN HmsHull(e, p) ELSE Empty)
    [] e.op = "time_from_seconds" -> HullInts(0, SPD - 1)
    [] e.op = "time_from_nanos" -> Hull(Zero, Sub(DayNs, FromInt(1)))
    [] e.op = "off_from_seconds" -> HullInts(1 - SPD, SPD - 1)
    [] e.op = "off_from_hms" ->
         (CASE p = "h"  -> IF SmallIn(e.mi, 0, 59) /\ SmallIn(e.s, 0, 59) THEN HullInts(-23, 23) ELSE Empty
            [] p = "mi" -> IF SmallIn(e.h, -23, 23) /\ SmallIn(e.s, 0, 59) THEN HullInts(0, 59) ELSE Empty
            [] p = "s"  -> IF SmallIn(e.h, -23, 23) /\ SmallIn(e.mi, 0, 59) THEN HullInts(0, 59) ELSE Empty)
    [] e.op \in {"dt_set", "date_set", "time_set"} -> FieldHull(a, e.f)

\* A date-field setter is from_ymd on the receiver's local date with one field replaced: the
\* receiver's other fields count as (implicit) arguments, since the error may be about the combination.
AsYmdCall(e, a) ==
  LET dn == IF a.ty = "date" THEN a.dn ELSE LocalOf(InstOf(a), a.off).dn
      ymd == Dn2Ymd(dn)
  IN [op |-> "date_from_ymd",
      y |-> IF e.f = "year" THEN e.v ELSE FromInt(ymd[1]),
      m |-> IF e.f = "month" THEN e.v ELSE FromInt(ymd[2]),
      d |-> IF e.f = "day" THEN e.v ELSE FromInt(ymd[3]),
      msg |-> e.msg]

RangeTextOK0(e, a) ==
  LET sr == StatedRange(e.msg) IN
  ~sr.has \/ \E p \in Params(e) : ~Within(e[p], sr) /\ HullWithin(AcceptedHull(e, a, p), sr)

\* A DateTime setter can also be refused although its argument is acceptable for the field: the edited local
\* reading denotes an instant outside the supported range (first / last day with an offset).  The quantity the
\* message may then state a range for is that instant, in nanoseconds since 0001-01-01T00:00:00Z.
SetterLocal(e, a) ==
  LET l == LocalOf(InstOf(a), a.off) IN
  IF ~l.ok \/ ~IsSmall(e.v) THEN [ok |-> FALSE]
  ELSE LET v == Small(e.v) IN
       IF e.f \in DateFields
       THEN (LET r == DateFieldSet(l.dn, e.f, v) IN
             IF r.ok THEN [ok |-> TRUE, dn |-> r.dn, sod |-> l.sod, ns |-> l.ns] ELSE [ok |-> FALSE])
       ELSE IF v < 0 \/ v > ClockMax(e.f) THEN [ok |-> FALSE]
       ELSE LET c == SetClock(l.sod, l.ns, e.f, v) IN [ok |-> TRUE, dn |-> l.dn, sod |-> c[1], ns |-> c[2]]
NanosOf(dn, sod, ns) == Add(MulSeq(Add(MulSmall(FromInt(dn), SPD), FromInt(sod)), <<R[4], R[5], R[6]>>, 1), FromInt(ns))
InstantHull == Hull(NanosOf(MinDn, 0, 0), Sub(NanosOf(MaxDn, SPD, 0), FromInt(1)))
ResultTextOK(e, a, sl) ==
  LET sr == StatedRange(e.msg) IN
  ~sr.has \/ (~Within(NanosOf(sl.dn, sl.sod - a.off, sl.ns), sr) /\ HullWithin(InstantHull, sr))

\* the clause: a stated range contains all accepted values of some argument and excludes its rejected value
RangeTextOK(e, a) ==
  IF e.op = "dt_set" /\ ~LocalOf(InstOf(a), a.off).ok
  THEN \* the receiver's own local reading is outside the range: that reading is the quantity out of range
       (LET sr == StatedRange(e.msg) IN
        ~sr.has \/ (~Within(NanosOf(a.dn, a.sod + a.off, a.ns), sr) /\ HullWithin(InstantHull, sr)))
  ELSE IF e.op = "dt_set" /\ SetterLocal(e, a).ok
  THEN ResultTextOK(e, a, SetterLocal(e, a))
  ELSE IF e.op \in {"dt_set", "date_set"} /\ e.f \in {"year", "month", "day"}
  THEN RangeTextOK0(AsYmdCall(e, a), a)
  ELSE RangeTextOK0(e, a)
=============================================================================
