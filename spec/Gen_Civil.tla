------------------------------ MODULE Gen_Civil ------------------------------
(***************************************************************************)
(* Conformance channel A for C01/C02: TLC enumerates constructor and       *)
(* day-of-year-setter calls over a boundary-dense year set together with   *)
(* the outcome the specification allows; the harness replays each case on  *)
(* the real code (`harness replay`).                                       *)
(***************************************************************************)
EXTENDS Civil, TLC, Json, IOUtils, FiniteSets, SequencesExt

Around(c, w) == (c - w)..(c + w)
Years == (-12..12) \cup Around(100, 1) \cup Around(-100, 1) \cup Around(400, 1) \cup Around(-400, 1)
         \cup Around(-401, 0) \cup Around(2000, 1) \cup Around(-2000, 1) \cup Around(1900, 0) \cup Around(2024, 1)
         \cup Around(5879611, 1) \cup Around(-5879611, 1) \cup Around(-5879609, 0) \cup Around(5879608, 0)

ErrOOR == [k |-> "err", v |-> "OutOfRange"]
OkDn(dn) == [k |-> "ok", dn |-> dn]

FromYmdExp(y, m, d) == IF ValidDate(y, m, d) THEN <<OkDn(Ymd2Dn(y, m, d))>> ELSE <<ErrOOR>>

FromYmdCases ==
  {[op |-> op, y |-> y, m |-> m, d |-> d, exp |-> FromYmdExp(y, m, d)] :
      op \in {"c_date_from_ymd", "c_dt_from_ymd"}, y \in Years, m \in 0..13, d \in 0..32}

\* the same triples reached through a setter: the receiver supplies the other two fields
\* (set_year(y) on y0-m-d constructs (y, m, d), and so on).  Bases: month ends and 29 February.
SetBases == {<<y, m, d>> : y \in {2024, 2023, 2000, 1900, -1, -5, 1, 4},
                          m \in {1, 2, 3, 4, 12}, d \in {1, 28, 29, 30, 31}}
ValidBases == {b \in SetBases : ValidDate(b[1], b[2], b[3])}
SetYmdCases ==
  {[op |-> op, f |-> "year", base |-> Ymd2Dn(b[1], b[2], b[3]), v |-> y, exp |-> FromYmdExp(y, b[2], b[3])] :
      op \in {"c_date_set", "c_dt_set"}, b \in ValidBases, y \in Years}
  \cup {[op |-> op, f |-> "month", base |-> Ymd2Dn(b[1], b[2], b[3]), v |-> m, exp |-> FromYmdExp(b[1], m, b[3])] :
      op \in {"c_date_set", "c_dt_set"}, b \in ValidBases, m \in 0..13}
  \cup {[op |-> op, f |-> "day", base |-> Ymd2Dn(b[1], b[2], b[3]), v |-> d, exp |-> FromYmdExp(b[1], b[2], d)] :
      op \in {"c_date_set", "c_dt_set"}, b \in ValidBases, d \in 0..32}

\* base date of the year the setter is applied to: 1 July (1 August / 1 June in the two partial years)
BaseMonth(y) == IF y = MinYmd[1] THEN 8 ELSE IF y = MaxYmd[1] THEN 6 ELSE 7
SetDoyExp(y, n) == IF ValidYearDoy(y, n) THEN <<OkDn(YearDoy2Dn(y, n))>> ELSE <<ErrOOR>>
SetDoyCases ==
  {[op |-> op, base |-> Ymd2Dn(y, BaseMonth(y), 1), n |-> n, exp |-> SetDoyExp(y, n)] :
      op \in {"c_date_set_doy", "c_dt_set_doy"},
      y \in {yy \in Years : yy # 0 /\ yy >= MinYmd[1] /\ yy <= MaxYmd[1]}, n \in 0..367}

\* as_ymd / weekday / day_of_year of chosen day numbers (expected values from the closed forms)
Days == {MinDn, MinDn + 1, MaxDn, MaxDn - 1} \cup Around(0, 800) \cup Around(UnixEpochDn, 400)
        \cup Around(-146097, 2) \cup Around(146097, 2) \cup Around(-1461, 2) \cup Around(730179, 3)
ReadCases ==
  {[op |-> op, dn |-> dn,
    exp |-> <<[k |-> "ok", ymd |-> Dn2Ymd(dn), wd |-> Weekday(dn), doy |-> Doy(dn)]>>] :
      op \in {"c_date_read", "c_dt_read"}, dn \in Days}

Which == IOEnv.WHICH
Cases == IF Which = "C01" THEN FromYmdCases \cup SetYmdCases \cup ReadCases
         ELSE SetDoyCases \cup ReadCases

ASSUME ndJsonSerialize(IOEnv.OUT, SetToSeq(Cases))
ASSUME PrintT(<<"GENERATED", Cardinality(Cases)>>)
=============================================================================
