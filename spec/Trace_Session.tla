---------------------------- MODULE Trace_Session ----------------------------
(***************************************************************************)
(* Trace validation (conformance channel B) of recorded sessions.          *)
(*                                                                         *)
(* The log IOEnv.TRACE holds one event per public call performed by the    *)
(* harness on a register file of real astrolabe values:                    *)
(*    [i, op, a, b, dst?, <arguments>, res]                                *)
(* The specification keeps its OWN register file `reg`: the operands of    *)
(* each call are the specification's values, never re-read from the log,   *)
(* so a corrupted internal representation surfaces at a later observation. *)
(*                                                                         *)
(* Each event is explained by Ops!Allowed (StepOk) or recorded in `bad`    *)
(* and the register resynchronised to the logged projection (Diverge), so  *)
(* the whole trace is always consumed and every mismatch is reported.      *)
(***************************************************************************)
EXTENDS Ops, TLC, Json, IOUtils, FiniteSets, SequencesExt

Rec == ndJsonDeserialize(IOEnv.TRACE)

RealR == <<24, 60, 60, 1000, 1000, 1000>>
RealLo == MinDn
RealHi == MaxDn

VARIABLES reg, l, bad
vars == <<reg, l, bad>>

RegNames == {"A", "B", "C", "D", "E", "T", "U", "P", "Q"}
NoValue == [ty |-> "none"]

ProjOf(val) == CASE val.ty = "date" -> OkDate(val.dn)
                 [] val.ty = "dt"   -> OkDt(Inst(val.dn, val.sod, val.ns), val.off)
                 [] val.ty = "time" -> OkTime([sod |-> val.sod, ns |-> val.ns], val.off)

\* (a DateTime whose local view leaves the representable range is built by arithmetic, see harness model::dt_at)
InitExpected(val) == {ProjOf(val)}
Expected(e) == IF e.op = "init" THEN InitExpected(e.val) ELSE Allowed(e, reg[e.a], reg[e.b])

\* lexicographic order on clock readings <<dn, sod, ns>>
TripleLe(a, b) == \/ a[1] < b[1] \/ (a[1] = b[1] /\ a[2] < b[2]) \/ (a[1] = b[1] /\ a[2] = b[2] /\ a[3] <= b[3])
\* a now() result lies between the environment's two readings of the clock (and carries offset 0)
Between(op, res, x) ==
  res.k = "ok" /\
  CASE op = "dt_now" -> res.off = 0 /\ TripleLe(x.lo, <<res.dn, res.sod, res.ns>>) /\ TripleLe(<<res.dn, res.sod, res.ns>>, x.hi)
    [] op = "date_now" -> "rem" \notin DOMAIN res /\ x.lo[1] <= res.dn /\ res.dn <= x.hi[1]
    [] op = "time_now" -> LET t == TodOfWide(res.nod) IN
                          /\ res.off = 0 /\ IsCanonicalTod(res.nod)
                          /\ (x.lo[1] = x.hi[1] => TripleLe(<<0, x.lo[2], x.lo[3]>>, <<0, t.sod, t.ns>>)
                                                   /\ TripleLe(<<0, t.sod, t.ns>>, <<0, x.hi[2], x.hi[3]>>))

\* "loc": the returned value carries Offset::Local (a kind of offset, not a different reading: its "off" is what
\* Local resolves to).  It is judged by LocOK below and is not part of the outcome compared with Allowed.
IsLocal(r) == "loc" \in DOMAIN r /\ r.loc
Strip(r) == [f \in (DOMAIN r) \ {"loc"} |-> r[f]]
Matches(res0, al) == LET res == Strip(res0) IN
                    \/ AnyOutcome \in al
                    \/ (res.k = "panic" /\ Panic \in al)
                    \/ \E x \in al : x.k = res.k /\ x = res

HasDst(e) == "dst" \in DOMAIN e
TypeOfResult(e) == IF e.op = "init" THEN e.val.ty ELSE ResultType(e.op)

\* the register file after the event: a returned value is stored, anything else changes nothing
WithLoc(v, res) == IF IsLocal(res) THEN [f \in (DOMAIN v) \cup {"loc"} |-> IF f = "loc" THEN TRUE ELSE v[f]] ELSE v
After(e) == IF HasDst(e) /\ e.res.k = "ok" /\ TypeOfResult(e) # "none"
            THEN [reg EXCEPT ![e.dst] = WithLoc(ValueOfOutcome(TypeOfResult(e), Strip(e.res)), e.res)]
            ELSE reg

\* "offset unchanged" (C04, C05, C08, C09): a call that keeps the receiver's offset keeps its kind too; every
\* other call that returns a DateTime or a Time returns one with a fixed offset
KeepsOffset == {"dt_add", "dt_sub", "dt_add_dur", "dt_sub_dur", "dt_add_time", "dt_sub_time", "dt_add_months", "dt_sub_months",
                "dt_add_years", "dt_sub_years", "dt_set", "dt_clear", "dt_set_time", "dt_copy", "dt_from_time", "time_from_dt",
                "time_add", "time_sub", "time_add_dur", "time_sub_dur", "time_add_time", "time_sub_time", "time_set", "time_clear",
                "time_copy"}
LocOK(e) == IF e.res.k # "ok" \/ TypeOfResult(e) \notin {"dt", "time"} THEN TRUE
            ELSE IF e.op = "init" THEN IsLocal(e.res) = IsLocal(e.val)
            ELSE IF e.op \in KeepsOffset THEN (reg[e.a] = NoValue \/ IsLocal(e.res) = IsLocal(reg[e.a]))
            ELSE ~IsLocal(e.res)

Init == reg = [r \in RegNames |-> NoValue] /\ l = 1 /\ bad = <<>>

Explained(e) == IF e.op \in {"dt_now", "date_now", "time_now"}
                THEN \E x \in Expected(e) : Between(e.op, e.res, x)
                ELSE Matches(e.res, Expected(e))

StepOk == /\ l <= Len(Rec)
          /\ Explained(Rec[l]) /\ LocOK(Rec[l])
          /\ reg' = After(Rec[l])
          /\ bad' = bad
          /\ l' = l + 1

Diverge == /\ l <= Len(Rec)
           /\ ~(Explained(Rec[l]) /\ LocOK(Rec[l]))
           /\ bad' = Append(bad, [i |-> Rec[l].i, event |-> Rec[l], expected |-> SetToSeq(Expected(Rec[l]))])
           /\ reg' = After(Rec[l])          \* resynchronise to what the implementation reported
           /\ l' = l + 1

Next == StepOk \/ Diverge
TraceSpec == Init /\ [][Next]_vars

Done == (l = Len(Rec) + 1) =>
          /\ ndJsonSerialize(IOEnv.OUT, bad)
          /\ PrintT(<<"VALIDATED", Len(Rec), "BAD", Len(bad)>>)
=============================================================================
