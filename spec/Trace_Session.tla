---------------------------- MODULE Trace_Session ----------------------------
(***************************************************************************)
(* Trace validation (conformance channel B) of recorded sessions.          *)
(*                                                                         *)
(* The log IOEnv.TRACE holds one event per public call performed by the    *)
(* harness on a register file of real astrolabe values:                    *)
(*    [i, op, a, b, dst?, <arguments>, res]                                *)
(* The specification keeps its OWN register file `reg`: the operands of    *)
(* each call are the specification's values, never re-read from the log,   *)
(* so a corrupted internal representation surfaces at a later observation. *)
(*                                                                         *)
(* Each event is explained by Ops!Allowed (StepOk) or recorded in `bad`    *)
(* and the register resynchronised to the logged projection (Diverge), so  *)
(* the whole trace is always consumed and every mismatch is reported.      *)
(***************************************************************************)
EXTENDS Ops, TLC, Json, IOUtils, FiniteSets, SequencesExt

Rec == ndJsonDeserialize(IOEnv.TRACE)

RealR == <<24, 60, 60, 1000, 1000, 1000>>
RealLo == MinDn
RealHi == MaxDn

VARIABLES reg, l, bad
vars == <<reg, l, bad>>

RegNames == {"A", "B", "C", "D", "E", "T", "U"}
NoValue == [ty |-> "none"]

ProjOf(val) == CASE val.ty = "date" -> OkDate(val.dn)
                 [] val.ty = "dt"   -> OkDt(Inst(val.dn, val.sod, val.ns), val.off)
                 [] val.ty = "time" -> OkTime([sod |-> val.sod, ns |-> val.ns], val.off)

\* loading a DateTime whose local view leaves the representable range is in the don't-care margin
InitExpected(val) == IF val.ty = "dt" /\ ~LocalOf(Inst(val.dn, val.sod, val.ns), val.off).ok
                     THEN {AnyOutcome} ELSE {ProjOf(val)}
Expected(e) == IF e.op = "init" THEN InitExpected(e.val) ELSE Allowed(e, reg[e.a], reg[e.b])

Matches(res, al) == \/ AnyOutcome \in al
                    \/ (res.k = "panic" /\ Panic \in al)
                    \/ \E x \in al : x.k = res.k /\ x = res

HasDst(e) == "dst" \in DOMAIN e
TypeOfResult(e) == IF e.op = "init" THEN e.val.ty ELSE ResultType(e.op)

\* the register file after the event: a returned value is stored, anything else changes nothing
After(e) == IF HasDst(e) /\ e.res.k = "ok" /\ TypeOfResult(e) # "none"
            THEN [reg EXCEPT ![e.dst] = ValueOfOutcome(TypeOfResult(e), e.res)]
            ELSE reg

Init == reg = [r \in RegNames |-> NoValue] /\ l = 1 /\ bad = <<>>

StepOk == /\ l <= Len(Rec)
          /\ Matches(Rec[l].res, Expected(Rec[l]))
          /\ reg' = After(Rec[l])
          /\ bad' = bad
          /\ l' = l + 1

Diverge == /\ l <= Len(Rec)
           /\ ~Matches(Rec[l].res, Expected(Rec[l]))
           /\ bad' = Append(bad, [i |-> Rec[l].i, event |-> Rec[l], expected |-> SetToSeq(Expected(Rec[l]))])
           /\ reg' = After(Rec[l])          \* resynchronise to what the implementation reported
           /\ l' = l + 1

Next == StepOk \/ Diverge
TraceSpec == Init /\ [][Next]_vars

Done == (l = Len(Rec) + 1) =>
          /\ ndJsonSerialize(IOEnv.OUT, bad)
          /\ PrintT(<<"VALIDATED", Len(Rec), "BAD", Len(bad)>>)
=============================================================================
