SPECIFICATION Spec
CONSTANTS
  Alphabet = {"y", "M", "'", "-", "Q", "é"}
  MaxLen = 7
INVARIANTS AgreesWithDefinition Reconcatenates WellFormedTokens
CHECK_DEADLOCK FALSE
