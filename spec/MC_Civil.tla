------------------------------ MODULE MC_Civil ------------------------------
(***************************************************************************)
(* Exhaustive walk of the successor machine of Civil over complete         *)
(* 400-year cycles, checking every closed form against it in every state.  *)
(* Constants: Starts = set of <<dn, year>> of Mondays that are 1 January   *)
(* and begin ISO week 1; Steps = number of days walked from each start.    *)
(***************************************************************************)
EXTENDS Civil, TLC

CONSTANTS Steps
VARIABLE s

Starts == {<<-146097, -400>>, <<0, 1>>}

Init == \E st \in Starts : s = CivilStart(st[1], st[2])
Next == s' = Tomorrow(s)
Spec == Init /\ [][Next]_s

Bound == \E st \in Starts : s.dn >= st[1] /\ s.dn < st[1] + Steps

\* ---- invariants: closed forms = successor machine -------------------------
C01_Dn2Ymd    == Dn2Ymd(s.dn) = <<s.y, s.m, s.d>>
C01_Ymd2Dn    == Ymd2Dn(s.y, s.m, s.d) = s.dn
C01_ValidLabel == ValidDate(s.y, s.m, s.d)
C02_Weekday   == Weekday(s.dn) = s.wd
C02_Doy       == Doy(s.dn) = s.doy /\ YearDoy2Dn(s.y, s.doy) = s.dn /\ ValidYearDoy(s.y, s.doy)
C02_IsoWeek   == IsoWeek(s.dn) = s.wk /\ s.wk \in 1..53
NoYearZero    == s.y # 0

\* ---- anchors (evaluated once) ----------------------------------------------
ASSUME Dn2Ymd(UnixEpochDn) = <<1970, 1, 1>> /\ Weekday(UnixEpochDn) = 4
ASSUME Dn2Ymd(MinDn) = MinYmd /\ Dn2Ymd(MaxDn) = MaxYmd
ASSUME Ymd2Dn(MinYmd[1], MinYmd[2], MinYmd[3]) = MinDn
ASSUME Ymd2Dn(MaxYmd[1], MaxYmd[2], MaxYmd[3]) = MaxDn
ASSUME Doy(MinDn) = 174 /\ Doy(MaxDn) = 193
ASSUME Dn2Ymd(-1) = <<-1, 12, 31>> /\ Dn2Ymd(0) = <<1, 1, 1>> /\ Weekday(-1) = 0
ASSUME IsLeap(-1) /\ IsLeap(-5) /\ ~IsLeap(-4) /\ ~IsLeap(-101) /\ IsLeap(-401) /\ IsLeap(2000) /\ ~IsLeap(1900)
ASSUME ~ValidDate(MinYmd[1], 6, 22) /\ ~ValidDate(MaxYmd[1], 7, 13) /\ ~ValidDate(0, 1, 1)
=============================================================================
