----------------------------- MODULE Trace_Cron -----------------------------
(***************************************************************************)
(* Trace validation of recorded cron histories (C17, channel B).  The log  *)
(* is a sequence of events                                                 *)
(*    [ev |-> "new",  expr, start]   a schedule is parsed, the clock set   *)
(*    [ev |-> "tick", d]             the (pinned) clock advances d seconds *)
(*    [ev |-> "next", res]           next() was called and returned res    *)
(* The specification carries the iterator state (`last`) itself - the log  *)
(* only has the clock movements and the observed results - and steps the   *)
(* same machine as MC_Cron: Tick, then CallNext = Cron!IterNext.           *)
(***************************************************************************)
EXTENDS Cron, TLC, Json, IOUtils, SequencesExt

Rec == ndJsonDeserialize(IOEnv.TRACE)

VARIABLES sched, clock, last, l, bad
vars == <<sched, clock, last, l, bad>>

NoSched == <<>>
Init == sched = NoSched /\ clock = <<0, 0>> /\ last = NoLast /\ l = 1 /\ bad = <<>>

Advance(c, d) == LET t == c[2] + d IN <<c[1] + (t \div 86400), t % 86400>>
\* a next() result is logged as a record: [fire |-> <<dn, minute of day>>], [none |-> TRUE], [panic |-> ..] or [odd |-> ..]
\* (a value that is not a whole minute at offset 0)
Fired(r) == "fire" \in DOMAIN r

New == /\ Rec[l].ev = "new"
       /\ LET r == Recognize(Rec[l].expr) IN
          /\ sched' = IF r.k = "ok" /\ Satisfiable(r.sets) THEN r.sets ELSE NoSched
          /\ bad' = IF (r.k = "ok" /\ Rec[l].parsed = "err") \/ (r.k = "err" /\ Rec[l].parsed = "ok")
                    THEN Append(bad, [i |-> Rec[l].i, event |-> Rec[l], expected |-> r.k]) ELSE bad
       /\ clock' = Rec[l].start /\ last' = NoLast

Tick == /\ Rec[l].ev = "tick"
        /\ clock' = Advance(clock, Rec[l].d)
        /\ UNCHANGED <<sched, last, bad>>

\* the schedule was not accepted / is outside what the specification speaks about: nothing to check
NextUnjudged == /\ Rec[l].ev = "next" /\ sched = NoSched
                /\ UNCHANGED <<sched, clock, last, bad>>

Agrees(r) == Fired(r) /\ r.fire = IterNext(sched, clock, last)

NextOk == /\ Rec[l].ev = "next" /\ sched # NoSched
          /\ Agrees(Rec[l].res)
          /\ last' = Rec[l].res.fire
          /\ UNCHANGED <<sched, clock, bad>>

NextDiverge == /\ Rec[l].ev = "next" /\ sched # NoSched
               /\ ~Agrees(Rec[l].res)
               /\ bad' = Append(bad, [i |-> Rec[l].i, event |-> Rec[l],
                                      expected |-> IterNext(sched, clock, last), clock |-> clock, last |-> last])
               /\ last' = IF Fired(Rec[l].res) THEN Rec[l].res.fire ELSE last      \* resynchronise
               /\ UNCHANGED <<sched, clock>>

Next == l <= Len(Rec) /\ (New \/ Tick \/ NextUnjudged \/ NextOk \/ NextDiverge) /\ l' = l + 1
TraceSpec == Init /\ [][Next]_vars

Done == (l = Len(Rec) + 1) =>
          /\ ndJsonSerialize(IOEnv.OUT, bad)
          /\ PrintT(<<"VALIDATED", Len(Rec), "BAD", Len(bad)>>)
=============================================================================
