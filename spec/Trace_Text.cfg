CONSTANTS
  R <- RealR
  DnLo <- RealLo
  DnHi <- RealHi
