-------------------------------- MODULE Text --------------------------------
(***************************************************************************)
(* Text as sequences of one-character strings (how strings cross the       *)
(* boundary between the harness and TLC), decimal numerals, padding.       *)
(***************************************************************************)
EXTENDS Integers, Sequences

DigitChars == <<"0", "1", "2", "3", "4", "5", "6", "7", "8", "9">>
IsDigit(c) == c \in {"0", "1", "2", "3", "4", "5", "6", "7", "8", "9"}
DigitVal(c) == CASE c = "0" -> 0 [] c = "1" -> 1 [] c = "2" -> 2 [] c = "3" -> 3 [] c = "4" -> 4
                 [] c = "5" -> 5 [] c = "6" -> 6 [] c = "7" -> 7 [] c = "8" -> 8 [] c = "9" -> 9

RECURSIVE NatChars(_)
\* decimal numeral of a native natural number
NatChars(n) == IF n < 10 THEN <<DigitChars[n + 1]>> ELSE NatChars(n \div 10) \o <<DigitChars[(n % 10) + 1]>>

RECURSIVE Zeros(_)
Zeros(k) == IF k <= 0 THEN <<>> ELSE <<"0">> \o Zeros(k - 1)

\* numeral of n >= 0, left-padded with zeros to at least w characters (never truncated)
ZeroPad(n, w) == LET s == NatChars(n) IN Zeros(w - Len(s)) \o s

\* a sequence of digits 0..9 as characters
DigitsToChars(ds) == [i \in 1..Len(ds) |-> DigitChars[ds[i] + 1]]
CharsToDigits(cs) == [i \in 1..Len(cs) |-> DigitVal(cs[i])]
AllDigits(cs) == \A i \in 1..Len(cs) : IsDigit(cs[i])

RECURSIVE CharsToNatAt(_, _, _)
CharsToNatAt(cs, i, acc) == IF i > Len(cs) THEN acc ELSE CharsToNatAt(cs, i + 1, acc * 10 + DigitVal(cs[i]))
\* only for numerals known to fit 32 bits (at most 9 digits)
CharsToNat(cs) == CharsToNatAt(cs, 1, 0)

\* string literal -> character sequence is not expressible in TLA+; specs write <<"a","b">> directly.

RECURSIVE Concat(_)
Concat(parts) == IF parts = <<>> THEN <<>> ELSE Head(parts) \o Concat(Tail(parts))

RECURSIVE JoinWith(_, _)
JoinWith(parts, sep) == IF parts = <<>> THEN <<>>
                        ELSE IF Len(parts) = 1 THEN parts[1]
                        ELSE parts[1] \o sep \o JoinWith(Tail(parts), sep)

IsPrefixOf(p, s) == Len(p) <= Len(s) /\ SubSeq(s, 1, Len(p)) = p
Drop(s, k) == SubSeq(s, k + 1, Len(s))
Take(s, k) == SubSeq(s, 1, k)
=============================================================================
