----------------------------- MODULE MC_Pattern -----------------------------
(***************************************************************************)
(* The pattern tokenizer as a state machine reading one character at a     *)
(* time, model-checked against the recursive definition Pattern!Tokenize   *)
(* on every pattern up to MaxLen over a quoting alphabet:                  *)
(*   state  pat (characters read so far), mode ("idle" | "quote" | "esc"   *)
(*          = just read an apostrophe that may start '' ), toks, cur       *)
(* Invariants: the machine's tokens are those of Tokenize; tokens          *)
(* re-concatenate to the pattern modulo quote processing; every token is   *)
(* a run of one character or a quoted text; runs are maximal.              *)
(***************************************************************************)
EXTENDS Pattern, TLC

CONSTANTS Alphabet, MaxLen
VARIABLES pat, inq, pend, toks, cur
\* pend: an apostrophe has been read whose meaning depends on the next character
vars == <<pat, inq, pend, toks, cur>>

Init == pat = <<>> /\ inq = FALSE /\ pend = FALSE /\ toks = <<>> /\ cur = <<>>

\* resolve a pending apostrophe that is NOT followed by another apostrophe: it toggles quoting
Toggle(q, ts, c) == IF q THEN [inq |-> FALSE, toks |-> Append(ts, TextTok(c)), cur |-> <<>>]
                    ELSE [inq |-> TRUE, toks |-> ts, cur |-> <<>>]

Read(ch) ==
  /\ Len(pat) < MaxLen
  /\ pat' = Append(pat, ch)
  /\ IF pend THEN
        (IF ch = Quote
         THEN \* '' : a literal apostrophe
              /\ pend' = FALSE /\ inq' = inq
              /\ IF inq THEN cur' = Append(cur, Quote) /\ toks' = toks
                 ELSE toks' = PushRun(toks, Quote) /\ cur' = cur
         ELSE LET t == Toggle(inq, toks, cur) IN
              /\ pend' = FALSE /\ inq' = t.inq
              /\ IF t.inq THEN cur' = <<ch>> /\ toks' = t.toks
                 ELSE toks' = PushRun(t.toks, ch) /\ cur' = <<>>)
     ELSE IF ch = Quote THEN pend' = TRUE /\ UNCHANGED <<inq, toks, cur>>
     ELSE IF inq THEN cur' = Append(cur, ch) /\ UNCHANGED <<inq, pend, toks>>
     ELSE toks' = PushRun(toks, ch) /\ UNCHANGED <<inq, pend, cur>>

Next == \E ch \in Alphabet : Read(ch)
Spec == Init /\ [][Next]_vars

\* what the machine has produced once the input ends here
Final == IF pend THEN Toggle(inq, toks, cur) ELSE [inq |-> inq, toks |-> toks, cur |-> cur]

AgreesWithDefinition == LET f == Final  t == Tokenize(pat) IN f.toks = t.toks /\ (~f.inq) = t.balanced

RECURSIVE Detok(_, _)
RECURSIVE Requote(_)
\* the pattern text a token list stands for (apostrophes re-doubled, quoted text re-quoted)
Requote(t) == IF t = <<>> THEN <<>> ELSE (IF t[1] = Quote THEN <<Quote, Quote>> ELSE <<t[1]>>) \o Requote(Tail(t))
Detok(ts, i) == IF i > Len(ts) THEN <<>>
                ELSE (IF ts[i].k = "text" THEN <<Quote>> \o Requote(ts[i].text) \o <<Quote>>
                      ELSE IF ts[i].c = Quote THEN Repeat(Quote, 2 * ts[i].w) ELSE Repeat(ts[i].c, ts[i].w)) \o Detok(ts, i + 1)
Reconcatenates == Balanced(pat) => Detok(Tokens(pat), 1) = pat

WellFormedTokens ==
  LET ts == Tokens(pat) IN
  /\ \A i \in 1..Len(ts) : (ts[i].k = "run" /\ ts[i].w >= 1) \/ ts[i].k = "text"
  /\ \A i \in 1..(Len(ts) - 1) : ~(ts[i].k = "run" /\ ts[i + 1].k = "run" /\ ts[i].c = ts[i + 1].c)     \* runs are maximal
=============================================================================
