-------------------------------- MODULE TZif --------------------------------
(***************************************************************************)
(* What a TZif file means (RFC 8536) - C18.                                *)
(*                                                                         *)
(* An instant is a pair <<dn, sod>> (UTC day number since 0001-01-01,      *)
(* second of day): Unix timestamps exceed TLC's 32-bit integers, and the   *)
(* harness converts by dividing by 86400 (representation only).            *)
(*                                                                         *)
(* Abstract file:  [ver    : 1..3,                                         *)
(*                  trans  : Seq([t : instant, idx : type index, 0-based]),*)
(*                           strictly increasing in t,                     *)
(*                  types  : Seq(utoff seconds),                           *)
(*                  footer : [kind |-> "none"]                             *)
(*                         | [kind |-> "fixed", off]                       *)
(*                         | [kind |-> "alt", std, dst, s, e]]             *)
(* s / e: the rules for the start and the end of daylight time, each       *)
(*   [day : <<"J", n>> | <<"Z", n>> | <<"M", m, w, d>>, time : seconds]    *)
(*   Jn  n in 1..365, 29 February never counted                           *)
(*   Zn  (written `n`) in 0..365, 29 February counted                      *)
(*   Mm.w.d  weekday d (0 = Sunday) of week w (5 = last) of month m        *)
(* Offsets are seconds EAST of UTC (the utoff of RFC 8536).                *)
(***************************************************************************)
EXTENDS Integers, Sequences, Civil

TNorm(dn, s) == <<dn + (s \div 86400), s % 86400>>          \* s may be negative or exceed a day
TLt(a, b) == a[1] < b[1] \/ (a[1] = b[1] /\ a[2] < b[2])
TLe(a, b) == a = b \/ TLt(a, b)

YearStart(y) == Ymd2Dn(y, 1, 1)

\* day number of a rule day in calendar year y
RuleDay(day, y) ==
  CASE day[1] = "J" -> YearStart(y) + (day[2] - 1) + (IF IsLeap(y) /\ day[2] >= 60 THEN 1 ELSE 0)
    [] day[1] = "Z" -> YearStart(y) + day[2]
    [] day[1] = "M" ->
         LET first == Ymd2Dn(y, day[2], 1)
             shift == (day[4] - Weekday(first) + 7) % 7        \* first weekday d on or after the 1st
             cand == first + shift + 7 * (day[3] - 1)
             last == first + MonthLen(y, day[2]) - 1
         IN IF cand > last THEN cand - 7 ELSE cand             \* week 5 means "last"

\* UTC instant at which a rule fires in year y, given the offset in force before the switch
SwitchAt(rule, y, offBefore) == TNorm(RuleDay(rule.day, y), rule.time - offBefore)

RuleOffsetIn(f, ts) ==
  IF f.kind = "fixed" THEN f.off
  ELSE LET y == YearOf(ts[1])
           dstStart == SwitchAt(f.s, y, f.std)
           dstEnd == SwitchAt(f.e, y, f.dst)
       IN IF TLt(dstStart, dstEnd)
          THEN (IF TLe(dstStart, ts) /\ TLt(ts, dstEnd) THEN f.dst ELSE f.std)
          ELSE (IF TLe(dstEnd, ts) /\ TLt(ts, dstStart) THEN f.std ELSE f.dst)

\* The Gregorian calendar repeats every 400 years = 146 097 days = 20 871 weeks, so a rule yields the same
\* offset 146 097 days earlier or later.  In the first and the last year of the 32-bit day range some switch-over
\* days are not representable day numbers: the rule is evaluated one period closer to 0001-01-01 there.
\* (Gen_TZ checks the periodicity of RuleOffsetIn on every synthesized footer.)
RuleOffset(f, ts) ==
  IF ts[1] > MaxDn - 1000 THEN RuleOffsetIn(f, <<ts[1] - DaysPerEra, ts[2]>>)
  ELSE IF ts[1] < MinDn + 1000 THEN RuleOffsetIn(f, <<ts[1] + DaysPerEra, ts[2]>>)
  ELSE RuleOffsetIn(f, ts)

RECURSIVE LastLE(_, _, _, _)
\* index of the latest transition at or before ts, by bisection; requires trans[lo].t <= ts
LastLE(trans, ts, lo, hi) ==
  IF lo = hi THEN lo
  ELSE LET mid == (lo + hi + 1) \div 2
       IN IF TLe(trans[mid].t, ts) THEN LastLE(trans, ts, mid, hi) ELSE LastLE(trans, ts, lo, mid - 1)

HasFooter(tz) == tz.ver >= 2 /\ tz.footer.kind # "none"

\* what the property allows for instant ts: one offset, or anything ([any |-> TRUE]) where it is silent
Exactly(off) == [any |-> FALSE, off |-> off]
Anything == [any |-> TRUE]
Lookup(tz, ts) ==
  LET n == Len(tz.trans) IN
  IF n = 0 THEN (IF HasFooter(tz) THEN Exactly(RuleOffset(tz.footer, ts))
                 ELSE IF Len(tz.types) >= 1 THEN Exactly(tz.types[1]) ELSE Anything)
  ELSE IF TLt(ts, tz.trans[1].t) THEN Anything                 \* before the first transition: not specified
  ELSE IF TLe(tz.trans[n].t, ts) THEN
         (IF HasFooter(tz) THEN Exactly(RuleOffset(tz.footer, ts)) ELSE Exactly(tz.types[tz.trans[n].idx + 1]))
  ELSE Exactly(tz.types[tz.trans[LastLE(tz.trans, ts, 1, n)].idx + 1])

\* ---- well-formedness assumed by C18 ------------------------------------------------
\* the footer agrees with the last transition's type at the last transition (RFC 8536 3.3)
FooterConsistent(tz) ==
  Len(tz.trans) = 0 \/ ~HasFooter(tz)
  \/ RuleOffset(tz.footer, tz.trans[Len(tz.trans)].t) = tz.types[tz.trans[Len(tz.trans)].idx + 1]

\* yearly switch-overs more than a week apart and more than a week from 1 January (the IANA shape)
IanaShaped(f, y) ==
  f.kind # "alt" \/
  LET a == SwitchAt(f.s, y, f.std)[1]  b == SwitchAt(f.e, y, f.dst)[1]
      y0 == YearStart(y)  y1 == YearStart(NextYear(y))
  IN /\ (IF a > b THEN a - b ELSE b - a) > 7
     /\ a - y0 > 7 /\ b - y0 > 7 /\ y1 - a > 7 /\ y1 - b > 7
=============================================================================
