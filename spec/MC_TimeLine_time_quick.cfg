SPECIFICATION SpecTime
CONSTANTS
  R <- SmallR
  DnLo <- NegThree
  DnHi = 3
  Offsets <- OffsQuick
  Counts <- CountsTiny
  SubSecs <- SubQuick
  OperandSubSecs <- SubPair
  OperandOffsets <- OffsPair
  DayLo = 0
  DayHi = 0
INVARIANT TypeOK
VIEW View
CHECK_DEADLOCK FALSE
