-------------------------- MODULE Civil_lemmas_apa --------------------------
(***************************************************************************)
(* For EVERY day number dn in [-2^31, 2^31): the closed forms read dn back *)
(* as a valid, in-range (year, month, day) with no year 0, and rebuilding  *)
(* the day number from that triple gives dn again.  Discharged by          *)
(*   apalache-mc check --init=Init --next=Next --inv=RoundTrip --length=0  *)
(* i.e. symbolically for all 2^32 initial states at once (SMT).            *)
(***************************************************************************)
EXTENDS Civil_lemmas
VARIABLE
  \* @type: Int;
  dn
Init == dn \in (-2147483647 - 1)..2147483647
Next == UNCHANGED dn
RoundTrip == RoundTripAt(dn)
=============================================================================
