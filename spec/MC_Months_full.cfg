SPECIFICATION Spec
CONSTANTS
  YearLo <- YLoF
  YearHi = 9
  Steps <- StepsF
CHECK_DEADLOCK FALSE
