SPECIFICATION Spec
CONSTANT MaxCalls = 3
CHECK_DEADLOCK FALSE
