SPECIFICATION Spec
CONSTANT MaxCalls = 2
CHECK_DEADLOCK FALSE
