------------------------------- MODULE Months -------------------------------
(***************************************************************************)
(* Calendar-month arithmetic (C05, C07): a date N months away keeps its    *)
(* day of month, reduced to the last day of a shorter target month; year   *)
(* -1 directly precedes year 1.                                            *)
(***************************************************************************)
EXTENDS Integers, Sequences, Civil, Wide

MinOf(a, b) == IF a < b THEN a ELSE b

MonthIdx(y, m) == 12 * Astro(y) + (m - 1)

\* |k| small enough that the month index cannot overflow 32 bits
ShiftMonths(dn, k) ==
  LET ymd == Dn2Ymd(dn)
      mi == MonthIdx(ymd[1], ymd[2]) + k
      y2 == Label(mi \div 12)
      m2 == (mi % 12) + 1
      d2 == MinOf(ymd[3], MonthLen(y2, m2))
  IN IF ValidDate(y2, m2, d2) THEN [k |-> "ok", dn |-> Ymd2Dn(y2, m2, d2)] ELSE [k |-> "panic"]

\* whole range = 11 759 223 years = 141 110 676 months: larger counts cannot be representable
MaxMonthCount == 150000000

\* n wide (a u32 count), unit = 1 (months) or 12 (years)
ShiftMonthsWide(dn, n, unit, sign) ==
  IF ~FitsInt(n) \/ ToInt(n) > MaxMonthCount \div unit THEN [k |-> "panic"]
  ELSE ShiftMonths(dn, sign * unit * ToInt(n))

\* lexicographic order on <<dn, sod, ns>>
TLt(a, b) == \/ a[1] < b[1]
             \/ (a[1] = b[1] /\ a[2] < b[2])
             \/ (a[1] = b[1] /\ a[2] = b[2] /\ a[3] < b[3])
TLe(a, b) == a = b \/ TLt(a, b)

\* whole calendar months from b to a, for a >= b and DayOf(b) <= 28 (closed form;
\* MC_Months checks it is the unique n with b+n months <= a < b+(n+1) months)
MonthsSinceExact(a, b) ==
  LET ya == Dn2Ymd(a[1])  yb == Dn2Ymd(b[1])
      borrow == IF TLt(<<ya[3], a[2], a[3]>>, <<yb[3], b[2], b[3]>>) THEN 1 ELSE 0
  IN MonthIdx(ya[1], ya[2]) - MonthIdx(yb[1], yb[2]) - borrow

\* outcomes the property fixes for one call a.months_since(b) / a.years_since(b)
MonthsSinceAllowed(a, b, years) ==
  LET fwd == TLe(b, a) IN
  IF fwd /\ Dn2Ymd(b[1])[3] <= 28
  THEN LET n == MonthsSinceExact(a, b) IN {[k |-> "ok", v |-> FromInt(IF years THEN n \div 12 ELSE n)]}
  ELSE IF ~fwd /\ Dn2Ymd(a[1])[3] <= 28           \* antisymmetry with the exact case
  THEN LET n == MonthsSinceExact(b, a) IN {[k |-> "ok", v |-> FromInt(-(IF years THEN n \div 12 ELSE n))]}
  ELSE {[k |-> "any"]}
=============================================================================
