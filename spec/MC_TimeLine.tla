---------------------------- MODULE MC_TimeLine ----------------------------
(***************************************************************************)
(* Exhaustive model of the Astrolabe state machine on a structure-         *)
(* preserving small instance: radices <<3,2,2,2,2,2>> (a day of 12         *)
(* "seconds", a second of 8 "nanoseconds"), representable days -3..3.      *)
(* Same module text as the real instance used by the trace validators.     *)
(***************************************************************************)
EXTENDS Astrolabe

SmallR == <<3, 2, 2, 2, 2, 2>>
OffsQuick == {-11, -1, 0, 5, 11}
OffsFull == {-11, -7, -1, 0, 1, 5, 11}
CountsQuick == {0, 1, 2, 13, 100}
CountsFull == {0, 1, 2, 3, 7, 12, 13, 36, 100, 700}
SubQuick == {0, 5, 7}
SubFull == 0..7
SubPair == {0, 7}
SubOne == {5}
OffsTiny == {-11, 0, 5}
CountsTiny == {0, 1, 13, 100}
OffsPair == {0, 5}
NegThree == -3
NegOne == -1
OneTimeValue == {TimeV([sod |-> 7, ns |-> 5], 0)}
=============================================================================
