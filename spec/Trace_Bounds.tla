---------------------------- MODULE Trace_Bounds ----------------------------
(***************************************************************************)
(* Batch validation of the error texts logged by the C15 scenario: every   *)
(* event that carries `msg` (the Display of the returned OutOfRange error) *)
(* is judged by Bounds!RangeTextOK.  Acceptance/rejection itself is judged *)
(* on the same trace by Trace_Session.                                     *)
(***************************************************************************)
EXTENDS Bounds, TLC, Json, IOUtils, FiniteSets, SequencesExt

Rec == ndJsonDeserialize(IOEnv.TRACE)
RealR == <<24, 60, 60, 1000, 1000, 1000>>
RealLo == MinDn
RealHi == MaxDn

Judged(r) == /\ "msg" \in DOMAIN r /\ r.res.k = "err" /\ r.res.v = "OutOfRange"
             /\ r.op \in {"date_from_ymd", "dt_from_ymd", "dt_from_hms", "time_from_hms", "off_from_hms", "dt_from_ymdhms",
                          "time_from_seconds", "off_from_seconds", "time_from_nanos", "dt_set", "date_set", "time_set"}
             /\ (r.op \in {"dt_set", "date_set", "time_set"} => "aval" \in DOMAIN r)
Operand(r) == IF "aval" \in DOMAIN r THEN r.aval ELSE [ty |-> "none"]

JudgedIdx == {i \in 1..Len(Rec) : Judged(Rec[i])}
BadIdx == {i \in JudgedIdx : ~RangeTextOK(Rec[i], Operand(Rec[i]))}
BadSeq == LET idx == SetToSeq(BadIdx)
          IN [k \in 1..Len(idx) |-> [i |-> Rec[idx[k]].i, event |-> Rec[idx[k]],
                                     stated |-> StatedRange(Rec[idx[k]].msg)]]

ASSUME ndJsonSerialize(IOEnv.OUT, BadSeq)
ASSUME PrintT(<<"VALIDATED", Cardinality(JudgedIdx), "BAD", Cardinality(BadIdx)>>)
=============================================================================
