SPECIFICATION TraceSpec
INVARIANT Done
CHECK_DEADLOCK FALSE
