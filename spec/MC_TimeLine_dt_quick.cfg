SPECIFICATION SpecDt
CONSTANTS
  R <- SmallR
  DnLo <- NegThree
  DnHi = 3
  Offsets <- OffsTiny
  Counts <- CountsTiny
  SubSecs <- SubQuick
  OperandSubSecs <- SubOne
  OperandOffsets <- OffsPair
  TimeValues <- OneTimeValue
  DayLo = 0
  DayHi = 0
INVARIANT TypeOK
VIEW View
CHECK_DEADLOCK FALSE
