------------------------------ MODULE Pattern ------------------------------
(***************************************************************************)
(* The format language of astrolabe (C11, C12, C20).                       *)
(*                                                                         *)
(* A pattern is a character sequence.  The tokenizer is a character-at-a-  *)
(* time state machine with states idle / in a run of one character / in a  *)
(* quoted section; `''` is a literal apostrophe everywhere.  Tokens:       *)
(*     [k |-> "run", c, w]     w >= 1 copies of character c (not quoted)   *)
(*     [k |-> "text", text]    a quoted section (apostrophes resolved)     *)
(* A pattern with an unbalanced quote has Balanced(p) = FALSE; C11 says    *)
(* nothing about it.                                                       *)
(*                                                                         *)
(* Render(tok, view, ty) is the documented symbol table; a run of a        *)
(* character that is not a symbol of the value's type is copied as is.     *)
(* view = the value read in its offset:                                    *)
(*   [y, m, d, wd, doy, wk, h, mi, s, ns, off]                             *)
(***************************************************************************)
EXTENDS Integers, Sequences, Text, Names

Quote == "'"

DateSymbols == {"G", "y", "q", "M", "w", "d", "D", "e"}
TimeSymbols == {"a", "b", "h", "H", "K", "k", "m", "s", "n", "X", "x"}
SymbolsOf(ty) == CASE ty = "date" -> DateSymbols [] ty = "time" -> TimeSymbols [] ty = "dt" -> DateSymbols \cup TimeSymbols

(***************************************************************************)
(* Tokenizer: state = [mode, toks, cur] folded over the characters.        *)
(***************************************************************************)
Run(c, w) == [k |-> "run", c |-> c, w |-> w]
TextTok(t) == [k |-> "text", text |-> t]

\* append character c (outside quotes) to the token list: extend the last run or start a new one
PushRun(toks, c) ==
  IF toks # <<>> /\ toks[Len(toks)].k = "run" /\ toks[Len(toks)].c = c
  THEN [toks EXCEPT ![Len(toks)] = Run(c, toks[Len(toks)].w + 1)]
  ELSE Append(toks, Run(c, 1))

RECURSIVE Scan(_, _, _, _, _)
\* i: position; inq: inside a quoted section; cur: text of the open quoted section
Scan(p, i, inq, toks, cur) ==
  IF i > Len(p) THEN [toks |-> toks, balanced |-> ~inq]
  ELSE IF p[i] = Quote THEN
         (IF i < Len(p) /\ p[i + 1] = Quote
          THEN (IF inq THEN Scan(p, i + 2, TRUE, toks, Append(cur, Quote))
                ELSE Scan(p, i + 2, FALSE, PushRun(toks, Quote), <<>>))      \* a literal apostrophe
          ELSE IF inq THEN Scan(p, i + 1, FALSE, Append(toks, TextTok(cur)), <<>>)
          ELSE Scan(p, i + 1, TRUE, toks, <<>>))
  ELSE IF inq THEN Scan(p, i + 1, TRUE, toks, Append(cur, p[i]))
  ELSE Scan(p, i + 1, FALSE, PushRun(toks, p[i]), <<>>)

Tokenize(p) == Scan(p, 1, FALSE, <<>>, <<>>)
Balanced(p) == Tokenize(p).balanced
Tokens(p) == Tokenize(p).toks

(***************************************************************************)
(* Rendering                                                               *)
(***************************************************************************)
\* marker for "the table does not determine this rendering" (cannot collide with real text, whose
\* elements are one-character strings)
AnyMark == <<"<unspecified>">>

RECURSIVE Repeat(_, _)
Repeat(c, n) == IF n <= 0 THEN <<>> ELSE <<c>> \o Repeat(c, n - 1)

Pow10(k) == CASE k = 0 -> 1 [] k = 1 -> 10 [] k = 2 -> 100 [] k = 3 -> 1000 [] k = 4 -> 10000 [] k = 5 -> 100000
              [] k = 6 -> 1000000 [] k = 7 -> 10000000 [] k = 8 -> 100000000 [] k = 9 -> 1000000000

\* width actually used: over-long runs fall back to the default width
Eff(w, max, dflt) == IF w > max THEN dflt ELSE w

SignedPad(n, w) == IF n < 0 THEN <<"-">> \o ZeroPad(-n, w) ELSE ZeroPad(n, w)

Hour12(h) == IF h % 12 = 0 THEN 12 ELSE h % 12
PeriodRow(w) == CASE w \in {1, 2} -> PeriodUpper [] w = 3 -> PeriodLower [] w = 4 -> PeriodDotted [] w = 5 -> PeriodNarrow

ZoneText(off, w, withZ) ==
  IF withZ /\ off = 0 THEN <<"Z">> ELSE
  LET a == IF off < 0 THEN -off ELSE off
      hh == ZeroPad(a \div 3600, 2)  mm == ZeroPad((a % 3600) \div 60, 2)  ss == ZeroPad(a % 60, 2)
      sg == IF off < 0 THEN <<"-">> ELSE <<"+">>
  IN CASE w = 1 -> sg \o hh \o (IF (a % 3600) \div 60 # 0 THEN mm ELSE <<>>)
       [] w = 2 -> sg \o hh \o mm
       [] w = 3 -> sg \o hh \o <<":">> \o mm
       [] w = 4 -> sg \o hh \o mm \o (IF a % 60 # 0 THEN ss ELSE <<>>)
       [] w = 5 -> sg \o hh \o <<":">> \o mm \o (IF a % 60 # 0 THEN <<":">> \o ss ELSE <<>>)

\* the set of renderings the documentation allows for symbol c with run length w
RenderSym(c, w, v) ==
  CASE c = "G" -> LET e == Eff(w, 5, 4)  i == IF v.y < 0 THEN 2 ELSE 1 IN
                  {IF e <= 3 THEN EraAbbr[i] ELSE IF e = 4 THEN EraWide[i] ELSE EraNarrow[i]}
    [] c = "y" -> IF w = 2
                  THEN (IF v.y < 0 THEN {AnyMark} ELSE {ZeroPad(v.y % 100, 2)})        \* the table is silent on the sign
                  ELSE {SignedPad(v.y, w)}
    [] c = "q" -> LET e == Eff(w, 5, 1)  q == ((v.m - 1) \div 3) + 1 IN
                  {CASE e = 1 -> NatChars(q) [] e = 2 -> ZeroPad(q, 2) [] e = 3 -> <<"Q">> \o NatChars(q)
                     [] e = 4 -> QuarterOrdinal[q] [] e = 5 -> NatChars(q)}
    [] c = "M" -> LET e == Eff(w, 5, 4) IN
                  {CASE e = 1 -> NatChars(v.m) [] e = 2 -> ZeroPad(v.m, 2) [] e = 3 -> MonthAbbr[v.m]
                     [] e = 4 -> MonthWide[v.m] [] e = 5 -> MonthNarrow[v.m]}
    [] c = "w" -> {ZeroPad(v.wk, Eff(w, 2, 2))}
    [] c = "d" -> {ZeroPad(v.d, Eff(w, 2, 2))}
    [] c = "D" -> {ZeroPad(v.doy, Eff(w, 3, 1))}
    [] c = "e" -> LET e == Eff(w, 8, 1)  sun1 == v.wd + 1  mon1 == ((v.wd + 6) % 7) + 1 IN
                  {CASE e = 1 -> NatChars(sun1) [] e = 2 -> ZeroPad(sun1, 2) [] e = 3 -> DayAbbr[v.wd + 1]
                     [] e = 4 -> DayWide[v.wd + 1] [] e = 5 -> DayNarrow[v.wd + 1] [] e = 6 -> DayShort[v.wd + 1]
                     [] e = 7 -> NatChars(mon1) [] e = 8 -> ZeroPad(mon1, 2)}
    [] c = "a" -> {PeriodRow(Eff(w, 5, 3))[IF v.h < 12 THEN 1 ELSE 2]}
    [] c = "b" -> LET row == PeriodRow(Eff(w, 5, 3))
                      plain == row[IF v.h < 12 THEN 1 ELSE 2]
                      onTheDot == v.mi = 0 /\ v.s = 0 /\ v.h \in {0, 12}
                      special == row[IF v.h = 12 THEN 3 ELSE 4]
                  IN IF ~onTheDot THEN {plain}
                     ELSE IF v.ns = 0 THEN {special}
                     ELSE {plain, special}         \* within the second after noon/midnight: the table does not say
    [] c = "h" -> {ZeroPad(Hour12(v.h), Eff(w, 2, 2))}
    [] c = "H" -> {ZeroPad(v.h, Eff(w, 2, 2))}
    [] c = "K" -> {ZeroPad(v.h % 12, Eff(w, 2, 2))}
    [] c = "k" -> {ZeroPad(IF v.h = 0 THEN 24 ELSE v.h, Eff(w, 2, 2))}
    [] c = "m" -> {ZeroPad(v.mi, Eff(w, 2, 2))}
    [] c = "s" -> {ZeroPad(v.s, Eff(w, 2, 2))}
    [] c = "n" -> LET e == Eff(w, 5, 3)
                      digits == CASE e = 1 -> 1 [] e = 2 -> 2 [] e = 3 -> 3 [] e = 4 -> 6 [] e = 5 -> 9
                  IN {ZeroPad(v.ns \div Pow10(9 - digits), digits)}
    [] c = "X" -> {ZoneText(v.off, Eff(w, 5, 3), TRUE)}
    [] c = "x" -> {ZoneText(v.off, Eff(w, 5, 3), FALSE)}

RenderTok(t, v, ty) ==
  IF t.k = "text" THEN {t.text}
  ELSE IF t.c \in SymbolsOf(ty) THEN RenderSym(t.c, t.w, v)
  ELSE {Repeat(t.c, t.w)}

\* does `out` consist of one allowed rendering per token, in order?  (from an undetermined rendering on
\* - `yy` of a negative year - the rest of the output is not judged)
RECURSIVE MatchFrom(_, _, _, _, _)
MatchFrom(toks, i, out, v, ty) ==
  IF i > Len(toks) THEN out = <<>>
  ELSE LET rs == RenderTok(toks[i], v, ty) IN
       IF AnyMark \in rs THEN TRUE
       ELSE \E r \in rs : IsPrefixOf(r, out) /\ MatchFrom(toks, i + 1, Drop(out, Len(r)), v, ty)

FormatOK(p, v, ty, out) == ~Balanced(p) \/ MatchFrom(Tokens(p), 1, out, v, ty)

\* the single rendering when every token has exactly one (used by the generators)
RECURSIVE FormatFrom(_, _, _, _)
FormatFrom(toks, i, v, ty) ==
  IF i > Len(toks) THEN <<>>
  ELSE LET rs == RenderTok(toks[i], v, ty) IN (CHOOSE r \in rs : TRUE) \o FormatFrom(toks, i + 1, v, ty)
Format(p, v, ty) == FormatFrom(Tokens(p), 1, v, ty)
Deterministic(p, v, ty) == Balanced(p) /\ \A i \in 1..Len(Tokens(p)) : LET rs == RenderTok(Tokens(p)[i], v, ty) IN
                                                                        AnyMark \notin rs /\ \A a \in rs, b \in rs : a = b
=============================================================================
