--------------------------------- MODULE Ops ---------------------------------
(***************************************************************************)
(* The public calls of astrolabe on Date / DateTime / Time values as       *)
(* functions from (operation, operands, arguments) to the SET of outcomes  *)
(* the listed properties allow.  A singleton where a property fixes the    *)
(* result; {AnyOutcome} exactly where the properties are silent.           *)
(*                                                                         *)
(* Values:   Date      [ty |-> "date", dn]                                 *)
(*           DateTime  [ty |-> "dt", dn, sod, ns, off]                     *)
(*           Time      [ty |-> "time", sod, ns, off]                       *)
(* Outcomes: [k |-> "ok", ...projection...] | [k |-> "err", v |-> kind]    *)
(*           | [k |-> "panic"] | AnyOutcome                                *)
(* Used by the state machine Astrolabe (actions), by the case generators   *)
(* Gen_* (channel A) and by the trace validators Trace_* (channel B).      *)
(***************************************************************************)
EXTENDS TimeLine, Civil, Months

DateV(dn) == [ty |-> "date", dn |-> dn]
DtV(i, off) == [ty |-> "dt", dn |-> i.dn, sod |-> i.sod, ns |-> i.ns, off |-> off]
TimeV(t, off) == [ty |-> "time", sod |-> t.sod, ns |-> t.ns, off |-> off]

InstOf(v) == Inst(v.dn, v.sod, v.ns)
TodOf(v) == [sod |-> v.sod, ns |-> v.ns]
DateInst(v) == Inst(v.dn, 0, 0)

OkDate(dn) == [k |-> "ok", dn |-> dn]
\* eqc: every reading of the returned value (conversions, differences, text, a further setter or offset change)
\* equals the same reading of a canonical value built from (timestamp, nanosecond, offset): one representation per value
OkDt(i, off) == [k |-> "ok", dn |-> i.dn, sod |-> i.sod, ns |-> i.ns, off |-> off, eqc |-> TRUE]
\* as_nanos, the offset, equality with a freshly built canonical Time, as_seconds and as_hms (stored, not local, fields)
OkTime(t, off) == [k |-> "ok", nod |-> TodWide(t), off |-> off, eqc |-> TRUE,
                   secs |-> FromInt(t.sod), hms |-> <<FromInt(Hour(t.sod)), Minute(t.sod), Second(t.sod)>>]
OkVal(v) == [k |-> "ok", v |-> v]

\* outcome -> value stored in the destination register
ValueOfOutcome(ty, o) ==
  CASE ty = "date" -> DateV(o.dn)
    [] ty = "dt"   -> [ty |-> "dt", dn |-> o.dn, sod |-> o.sod, ns |-> o.ns, off |-> o.off]
    [] ty = "time" -> LET t == TodOfWide(o.nod) IN TimeV(t, o.off)

EpochSecs == MulSmall(FromInt(UnixEpochDn), 86400)
TimestampOf(i) == Sub(Add(MulSmall(FromInt(i.dn), SPD), FromInt(i.sod)), EpochSecs)

(***************************************************************************)
(* DateTime                                                                *)
(***************************************************************************)
\* A result that is representable but whose local view (under the value's offset) is not lies in
\* the one-day margin the properties leave open: its getters cannot be read.
\* C04: "whenever that instant is representable" - also when the result's local reading (under the unchanged
\* offset) is not: such a value can be compared, subtracted and moved back, only its local fields cannot be read
DtShifted(a, amount, sign) ==
  LET r == Shift(InstOf(a), amount, sign)
  IN IF r.k # "ok" THEN {Panic} ELSE {OkDt(r.inst, a.off)}

\* date-field getters and setters work on the local view
DtLocal(a) == LocalOf(InstOf(a), a.off)


DtFields(a) ==
  LET l == DtLocal(a) IN
  IF ~l.ok THEN {AnyOutcome} ELSE
  LET ymd == Dn2Ymd(l.dn) IN
  {[k |-> "ok", y |-> ymd[1], m |-> ymd[2], d |-> ymd[3], h |-> Hour(l.sod), mi |-> Minute(l.sod),
    s |-> Second(l.sod), ms |-> Milli(l.ns), us |-> Micro(l.ns), nsf |-> l.ns,
    wd |-> Weekday(l.dn), doy |-> Doy(l.dn)]}

\* result of replacing the local view by (dn2, sod2, ns2) and going back to UTC
DtFromLocal(a, dn2, sod2, ns2) ==
  LET u == UtcOf([dn |-> dn2, sod |-> sod2, ns |-> ns2], a.off)
  IN IF u.ok THEN {OkDt(Inst(u.dn, u.sod, u.ns), a.off)} ELSE {AnyOutcome}

\* Month arithmetic on a value that carries an offset.  C05 fixes "same day of month, time of day and offset
\* unchanged" but not whether the day of month is the stored (UTC) or the displayed (local) one: both are allowed,
\* nothing else is.  r = the shift of the stored day.
DtShiftMonthsOff(a, n, k, sign, r) ==
  LET l == DtLocal(a) IN
  IF ~l.ok THEN (IF r.k # "ok" THEN {Panic} ELSE {OkDt(Inst(r.dn, a.sod, a.ns), a.off)}) ELSE
  LET rl == ShiftMonthsWide(l.dn, n, k, sign)
      viaStored == IF r.k # "ok" THEN {Panic} ELSE {OkDt(Inst(r.dn, a.sod, a.ns), a.off)}
      viaLocal == IF rl.k # "ok" THEN {Panic} ELSE DtFromLocal(a, rl.dn, l.sod, l.ns)
  IN viaStored \cup viaLocal

\* a setter whose result is not a representable instant refuses (C09, C15: "refused with OutOfRange", "never panic")
DtSetLocal(a, dn2, sod2, ns2) ==
  LET u == UtcOf([dn |-> dn2, sod |-> sod2, ns |-> ns2], a.off)
  IN IF u.ok THEN {OkDt(Inst(u.dn, u.sod, u.ns), a.off)} ELSE {ErrOOR}

NoDay == [ok |-> FALSE]
DayIs(dn) == [ok |-> TRUE, dn |-> dn]
DateFieldSet(dn, f, v) ==      \* new local day number, or NoDay when refused; v is a native integer
  LET ymd == Dn2Ymd(dn) IN
  CASE f = "year"  -> IF ValidDate(v, ymd[2], ymd[3]) THEN DayIs(Ymd2Dn(v, ymd[2], ymd[3])) ELSE NoDay
    [] f = "month" -> IF ValidDate(ymd[1], v, ymd[3]) THEN DayIs(Ymd2Dn(ymd[1], v, ymd[3])) ELSE NoDay
    [] f = "day"   -> IF ValidDate(ymd[1], ymd[2], v) THEN DayIs(Ymd2Dn(ymd[1], ymd[2], v)) ELSE NoDay
    [] f = "doy"   -> IF ValidYearDoy(ymd[1], v) THEN DayIs(YearDoy2Dn(ymd[1], v)) ELSE NoDay

DateFields == {"year", "month", "day", "doy"}

\* vBig = TRUE: the argument does not fit 31 bits (certainly out of every field's range)
DtSet(a, f, v, vBig) ==
  LET l == DtLocal(a) IN
  \* a receiver whose local reading is not representable (obtainable by arithmetic on a value with an offset at the
  \* ends of the range) has no local field to replace: refused, not a panic (C15)
  IF ~l.ok THEN {ErrOOR} ELSE
  IF f \in DateFields THEN
     (IF vBig THEN {ErrOOR} ELSE
      LET r == DateFieldSet(l.dn, f, v) IN
      IF ~r.ok THEN {ErrOOR} ELSE DtSetLocal(a, r.dn, l.sod, l.ns))
  ELSE
     (IF vBig \/ v < 0 \/ v > ClockMax(f) THEN {ErrOOR} ELSE
      LET c == SetClock(l.sod, l.ns, f, v) IN DtSetLocal(a, l.dn, c[1], c[2]))

DtClear(a, f) ==
  LET l == DtLocal(a) IN
  IF ~l.ok THEN {AnyOutcome} ELSE
  LET ymd == Dn2Ymd(l.dn) IN
  CASE f = "year"  -> DtFromLocal(a, 0, 0, 0)
    \* in the first (partial) year of the range 1 January / the 1st of June are not representable
    [] f = "month" -> IF ValidDate(ymd[1], 1, 1) THEN DtFromLocal(a, Ymd2Dn(ymd[1], 1, 1), 0, 0) ELSE {AnyOutcome}
    [] f = "day"   -> IF ValidDate(ymd[1], ymd[2], 1) THEN DtFromLocal(a, Ymd2Dn(ymd[1], ymd[2], 1), 0, 0)
                      ELSE {AnyOutcome}
    [] OTHER       -> LET c == ClearClock(l.sod, l.ns, f) IN DtFromLocal(a, l.dn, c[1], c[2])

DtSetOffset(a, o) ==
  IF ~ValidOffset(o) THEN {AnyOutcome}
  ELSE IF LocalOf(InstOf(a), o).ok THEN {OkDt(InstOf(a), o)} ELSE {AnyOutcome}

DtAsOffset(a, o) ==
  IF ~ValidOffset(o) THEN {AnyOutcome} ELSE
  LET u == UtcOf([dn |-> a.dn, sod |-> a.sod, ns |-> a.ns], o)     \* stored fields read as local under o
  IN IF u.ok /\ LocalOf(Inst(u.dn, u.sod, u.ns), o).ok THEN {OkDt(Inst(u.dn, u.sod, u.ns), o)} ELSE {AnyOutcome}

DtFromTimestamp(ts) ==
  LET s == Split(MulSeq(Add(ts, EpochSecs), <<R[4], R[5], R[6]>>, 1))
  IN IF DayInRange(s.dnw) THEN {OkDt(Inst(ToInt32(s.dnw), s.sod, 0), 0)} ELSE {Panic}

DtCmp(a, b) == LET c == CmpInst(InstOf(a), InstOf(b))
               IN {[k |-> "ok", cmp |-> c, eq |-> (c = 0), lt |-> (c < 0), le |-> (c <= 0), coherent |-> TRUE]}

DtDurBetween(a, b) == LET d == AsDuration(AbsDiff(InstOf(a), InstOf(b)))
                      IN {[k |-> "ok", secs |-> d[1], ns |-> d[2]]}

(***************************************************************************)
(* Date                                                                    *)
(***************************************************************************)
DateShiftDays(a, nDays, sign) ==     \* nDays wide
  LET w == IF sign > 0 THEN Add(FromInt(a.dn), nDays) ELSE Sub(FromInt(a.dn), nDays)
  IN IF DayInRange(w) THEN {OkDate(ToInt32(w))} ELSE {Panic}

DateFromTimestamp(ts) ==
  LET s == Split(MulSeq(Add(ts, EpochSecs), <<R[4], R[5], R[6]>>, 1))
  IN IF DayInRange(s.dnw) THEN {OkDate(ToInt32(s.dnw))} ELSE {Panic}

DateSet(a, f, v, vBig) ==
  IF vBig THEN {ErrOOR} ELSE
  LET r == DateFieldSet(a.dn, f, v) IN IF ~r.ok THEN {ErrOOR} ELSE {OkDate(r.dn)}

DateClear(a, f) ==
  LET ymd == Dn2Ymd(a.dn) IN
  CASE f = "year" -> {OkDate(0)}
    [] f = "month" -> IF ValidDate(ymd[1], 1, 1) THEN {OkDate(Ymd2Dn(ymd[1], 1, 1))} ELSE {AnyOutcome}
    [] f = "day" -> IF ValidDate(ymd[1], ymd[2], 1) THEN {OkDate(Ymd2Dn(ymd[1], ymd[2], 1))} ELSE {AnyOutcome}

DateFieldsOut(a) ==
  LET ymd == Dn2Ymd(a.dn)
  IN {[k |-> "ok", y |-> ymd[1], m |-> ymd[2], d |-> ymd[3], wd |-> Weekday(a.dn), doy |-> Doy(a.dn)]}

DateCmp(a, b) == LET c == IF a.dn < b.dn THEN -1 ELSE IF a.dn > b.dn THEN 1 ELSE 0
                 IN {[k |-> "ok", cmp |-> c, eq |-> (c = 0), lt |-> (c < 0), le |-> (c <= 0), coherent |-> TRUE]}

(***************************************************************************)
(* Time                                                                    *)
(***************************************************************************)
TimeShifted(a, amount, sign) == {OkTime(TodShift(TodOf(a), amount, sign), a.off)}

TimeFields(a) ==
  LET l == TodLocal(TodOf(a), a.off)
  IN {[k |-> "ok", h |-> Hour(l.sod), mi |-> Minute(l.sod), s |-> Second(l.sod),
       ms |-> Milli(l.ns), us |-> Micro(l.ns), nsf |-> l.ns]}

TimeSet(a, f, v, vBig) ==
  IF vBig \/ v < 0 \/ v > ClockMax(f) THEN {ErrOOR} ELSE
  LET l == TodLocal(TodOf(a), a.off)
      c == SetClock(l.sod, l.ns, f, v)
  IN {OkTime(TodUtc([sod |-> c[1], ns |-> c[2]], a.off), a.off)}

TimeClear(a, f) ==
  LET l == TodLocal(TodOf(a), a.off)
      c == ClearClock(l.sod, l.ns, f)
  IN {OkTime(TodUtc([sod |-> c[1], ns |-> c[2]], a.off), a.off)}

TimeSetOffset(a, o) == IF ~ValidOffset(o) THEN {AnyOutcome} ELSE {OkTime(TodOf(a), o)}
TimeAsOffset(a, o) == IF ~ValidOffset(o) THEN {AnyOutcome} ELSE {OkTime(TodUtc(TodOf(a), o), o)}

TimeCmp(a, b) == LET c == Sign(Sub(TodWide(TodOf(a)), TodWide(TodOf(b))))
                 IN {[k |-> "ok", cmp |-> c, eq |-> (c = 0), lt |-> (c < 0), le |-> (c <= 0), coherent |-> TRUE]}

TimeDurBetween(a, b) == LET d == AsDuration(Abs(Sub(TodWide(TodOf(a)), TodWide(TodOf(b)))))
                        IN {[k |-> "ok", secs |-> d[1], ns |-> d[2]]}

(***************************************************************************)
(* Constructors (C15).  Arguments arrive as wide numbers (u32/i32/u64      *)
(* domains); Small(w) = the native value when it fits 31 bits.             *)
(***************************************************************************)
IsSmall(w) == FitsInt(w)
Small(w) == ToInt(w)

FromYmdOk(y, m, d) == IsSmall(y) /\ IsSmall(m) /\ IsSmall(d) /\ ValidDate(Small(y), Small(m), Small(d))
HmsOk(h, mi, s) == /\ IsSmall(h) /\ IsSmall(mi) /\ IsSmall(s)
                   /\ Small(h) \in 0..(R[1] - 1) /\ Small(mi) \in 0..(R[2] - 1) /\ Small(s) \in 0..(R[3] - 1)

DateFromYmd(y, m, d) == IF FromYmdOk(y, m, d) THEN {OkDate(Ymd2Dn(Small(y), Small(m), Small(d)))} ELSE {ErrOOR}
DtFromYmd(y, m, d) == IF FromYmdOk(y, m, d) THEN {OkDt(Inst(Ymd2Dn(Small(y), Small(m), Small(d)), 0, 0), 0)} ELSE {ErrOOR}
DtFromHms(h, mi, s) == IF HmsOk(h, mi, s) THEN {OkDt(Inst(0, Small(h) * SPH + Small(mi) * SPM + Small(s), 0), 0)} ELSE {ErrOOR}
DtFromYmdHms(y, m, d, h, mi, s) ==
  IF FromYmdOk(y, m, d) /\ HmsOk(h, mi, s)
  THEN {OkDt(Inst(Ymd2Dn(Small(y), Small(m), Small(d)), Small(h) * SPH + Small(mi) * SPM + Small(s), 0), 0)}
  ELSE {ErrOOR}
TimeFromHms(h, mi, s) ==
  IF HmsOk(h, mi, s) THEN {OkTime([sod |-> Small(h) * SPH + Small(mi) * SPM + Small(s), ns |-> 0], 0)} ELSE {ErrOOR}
TimeFromSeconds(s) ==
  IF IsSmall(s) /\ Small(s) >= 0 /\ Small(s) < SPD THEN {OkTime([sod |-> Small(s), ns |-> 0], 0)} ELSE {ErrOOR}
TimeFromNanos(n) ==
  IF IsCanonicalTod(n) THEN {OkTime(TodOfWide(n), 0)} ELSE {ErrOOR}
OffFromSeconds(s) ==
  IF IsSmall(s) /\ ValidOffset(Small(s)) THEN {OkVal(Small(s))} ELSE {ErrOOR}
\* hour is signed; the sign of the hour is the sign of the offset
OffFromHms(h, mi, s) ==
  IF /\ IsSmall(h) /\ IsSmall(mi) /\ IsSmall(s)
     /\ Small(h) > -R[1] /\ Small(h) < R[1] /\ Small(mi) \in 0..(R[2] - 1) /\ Small(s) \in 0..(R[3] - 1)
  THEN LET hh == Small(h)
           mag == (IF hh < 0 THEN -hh ELSE hh) * SPH + Small(mi) * SPM + Small(s)
       IN {OkVal(IF hh < 0 THEN -mag ELSE mag)}
  ELSE {ErrOOR}
\* resolve_hms of an offset o: what was given
OffResolveHms(o) == LET m == IF o < 0 THEN -o ELSE o
                        h == m \div SPH
                    IN {[k |-> "ok", h |-> (IF o < 0 THEN -h ELSE h), mi |-> (m % SPH) \div SPM, s |-> m % SPM, secs |-> o]}

(***************************************************************************)
(* Dispatch: e is an event/case record with at least e.op; a, b are the    *)
(* operand values (b = a when unused).                                     *)
(***************************************************************************)
SignOf(op) == IF op \in {"dt_add", "date_add", "time_add", "dt_add_dur", "date_add_dur", "time_add_dur",
                         "dt_add_time", "time_add_time", "dt_add_months", "dt_add_years",
                         "date_add_months", "date_add_years"} THEN 1 ELSE -1

Big(w) == ~IsSmall(w)
NatOf(w) == IF IsSmall(w) THEN Small(w) ELSE 0

Allowed(e, a, b) ==
  LET op == e.op IN
  CASE op \in {"dt_add", "dt_sub"} -> DtShifted(a, Amount(e.n, e.u), SignOf(op))
    [] op \in {"dt_add_dur", "dt_sub_dur"} -> DtShifted(a, DurationNs(e.secs, e.ns), SignOf(op))
    [] op \in {"dt_add_time", "dt_sub_time"} -> DtShifted(a, TodWide(TodOf(b)), SignOf(op))
    [] op \in {"dt_add_months", "dt_sub_months", "dt_add_years", "dt_sub_years"} ->
         LET k == IF op \in {"dt_add_years", "dt_sub_years"} THEN 12 ELSE 1
             r == ShiftMonthsWide(a.dn, e.n, k, SignOf(op))
         IN IF a.off = 0 THEN (IF r.k = "ok" THEN {OkDt(Inst(r.dn, a.sod, a.ns), a.off)} ELSE {Panic})
            ELSE DtShiftMonthsOff(a, e.n, k, SignOf(op), r)
    [] op = "dt_since" -> {OkVal(Since(e.u, InstOf(a), InstOf(b)))}
    [] op \in {"dt_months_since", "dt_years_since"} ->
         IF a.off # 0 \/ b.off # 0 THEN {AnyOutcome}
         ELSE MonthsSinceAllowed(<<a.dn, a.sod, a.ns>>, <<b.dn, b.sod, b.ns>>, op = "dt_years_since")
    \* C07 as the relation it states between months_since and add_months of the same implementation:
    \* later >= earlier, n = later.months_since(earlier):  earlier.add_months(n) <= later < earlier.add_months(n + 1)
    \* (asserted when the earlier value's day of month is at most 28 in its stored and in its displayed reading);
    \* antisymmetry and years = months / 12 for every pair
    [] op = "dt_months_bracket" ->
         LET c == CmpInst(InstOf(a), InstOf(b))
             early == IF c >= 0 THEN b ELSE a
             le == DtLocal(early)
             small == le.ok /\ Dn2Ymd(early.dn)[3] <= 28 /\ Dn2Ymd(le.dn)[3] <= 28
         IN IF small THEN {[k |-> "ok", lo |-> TRUE, hi |-> TRUE, anti |-> TRUE, yrs |-> TRUE]}
            ELSE {[k |-> "ok", lo |-> x, hi |-> y, anti |-> TRUE, yrs |-> TRUE] : x \in BOOLEAN, y \in BOOLEAN}
    [] op = "dt_dur_between" -> DtDurBetween(a, b)
    [] op = "dt_cmp" -> DtCmp(a, b)
    [] op = "dt_ts" -> {OkVal(TimestampOf(InstOf(a)))}
    [] op = "dt_from_ts" -> DtFromTimestamp(e.ts)
    [] op = "dt_get" -> DtFields(a)
    \* as_ymd / as_hms / as_ymdhms: the calendar reading of the value.  For a value carrying an offset the
    \* properties do not say whether these read the stored (UTC) or the displayed (local) fields: either is allowed.
    [] op = "dt_as_ymdhms" ->
         LET rd(dn, sod) == [k |-> "ok", ymd |-> Dn2Ymd(dn), hms |-> <<Hour(sod), Minute(sod), Second(sod)>>]
             l == LocalOf(InstOf(a), a.off)
         IN IF a.off = 0 THEN {rd(a.dn, a.sod)}
            ELSE IF ~l.ok THEN {AnyOutcome} ELSE {rd(a.dn, a.sod), rd(l.dn, l.sod)}
    \* the same fields read through format(), one symbol per pattern (y M d D e w q H m s nnnnn)
    [] op = "dt_fmt_get" ->
         LET l == DtLocal(a) IN
         IF ~l.ok THEN {AnyOutcome} ELSE
         LET ymd == Dn2Ymd(l.dn) IN
         {[k |-> "ok", y |-> ymd[1], m |-> ymd[2], d |-> ymd[3], doy |-> Doy(l.dn), e |-> Weekday(l.dn) + 1,
           w |-> IsoWeek(l.dn), q |-> Quarter(ymd[2]), h |-> Hour(l.sod), mi |-> Minute(l.sod), s |-> Second(l.sod),
           n |-> l.ns,
           \* and through Display (yyyy/MM/dd HH:mm:ss of the value in its offset)
           disp |-> <<ymd[1], ymd[2], ymd[3], Hour(l.sod), Minute(l.sod), Second(l.sod)>>]}
    [] op = "dt_set" -> DtSet(a, e.f, NatOf(e.v), Big(e.v))
    [] op = "dt_clear" -> DtClear(a, e.f)
    [] op = "dt_set_offset" -> DtSetOffset(a, e.o)
    [] op = "dt_as_offset" -> DtAsOffset(a, e.o)
    [] op = "dt_from_date" -> {OkDt(Inst(a.dn, 0, 0), 0)}
    \* conversions between values that carry offsets: the stored reading or the displayed one (the properties
    \* do not choose); with offset 0 they coincide
    [] op = "dt_from_time" ->
         LET lt == TodLocal(TodOf(a), a.off)
             viaLocal == LET u == UtcOf([dn |-> 0, sod |-> lt.sod, ns |-> lt.ns], a.off)
                         IN IF u.ok THEN {OkDt(Inst(u.dn, u.sod, u.ns), a.off)} ELSE {AnyOutcome}
         IN {OkDt(Inst(0, a.sod, a.ns), a.off)} \cup (IF a.off = 0 THEN {} ELSE viaLocal)
    [] op = "dt_set_time" ->
         LET viaStored == {OkDt(Inst(a.dn, b.sod, b.ns), a.off)}
             l == DtLocal(a)
             lt == TodLocal(TodOf(b), b.off)
             viaLocal == IF ~l.ok THEN {AnyOutcome} ELSE DtFromLocal(a, l.dn, lt.sod, lt.ns)
         IN viaStored \cup (IF a.off = 0 /\ b.off = 0 THEN {} ELSE viaLocal)
    \* now(): any instant between the two clock readings the environment took around the call, UTC
    [] op \in {"dt_now", "date_now", "time_now"} -> {[k |-> "between", lo |-> e.t0, hi |-> e.t1]}
    [] op = "dt_copy" -> {OkDt(InstOf(a), a.off)}
    [] op = "dt_default" -> {OkDt(Inst(0, 0, 0), 0)}
    [] op = "dt_from_ymd" -> DtFromYmd(e.y, e.m, e.d)
    [] op = "dt_from_hms" -> DtFromHms(e.h, e.mi, e.s)
    [] op = "dt_from_ymdhms" -> DtFromYmdHms(e.y, e.m, e.d, e.h, e.mi, e.s)
    [] op \in {"date_add", "date_sub"} -> DateShiftDays(a, e.n, SignOf(op))
    [] op \in {"date_add_dur", "date_sub_dur"} -> DateShiftDays(a, DivModSmall(e.secs, SPD)[1], SignOf(op))
    [] op \in {"date_add_months", "date_sub_months", "date_add_years", "date_sub_years"} ->
         LET k == IF op \in {"date_add_years", "date_sub_years"} THEN 12 ELSE 1
             r == ShiftMonthsWide(a.dn, e.n, k, SignOf(op))
         IN IF r.k = "ok" THEN {OkDate(r.dn)} ELSE {Panic}
    [] op = "date_since" -> {OkVal(Sub(FromInt(a.dn), FromInt(b.dn)))}
    [] op \in {"date_months_since", "date_years_since"} ->
         MonthsSinceAllowed(<<a.dn, 0, 0>>, <<b.dn, 0, 0>>, op = "date_years_since")
    [] op = "date_dur_between" -> LET d == Abs(Sub(FromInt(a.dn), FromInt(b.dn)))
                                  IN {[k |-> "ok", secs |-> MulSmall(d, SPD), ns |-> 0]}
    [] op = "date_cmp" -> DateCmp(a, b)
    [] op = "date_ts" -> {OkVal(TimestampOf(DateInst(a)))}
    [] op = "date_from_ts" -> DateFromTimestamp(e.ts)
    [] op = "date_get" -> DateFieldsOut(a)
    [] op = "date_set" -> DateSet(a, e.f, NatOf(e.v), Big(e.v))
    [] op = "date_clear" -> DateClear(a, e.f)
    [] op = "date_from_dt" -> LET l == DtLocal(a) IN
                              {OkDate(a.dn)} \cup (IF a.off = 0 THEN {} ELSE IF l.ok THEN {OkDate(l.dn)} ELSE {AnyOutcome})
    [] op = "date_copy" -> {OkDate(a.dn)}
    [] op = "date_default" -> {OkDate(0)}
    [] op = "date_from_ymd" -> DateFromYmd(e.y, e.m, e.d)
    [] op \in {"time_add", "time_sub"} -> TimeShifted(a, Amount(e.n, e.u), SignOf(op))
    [] op \in {"time_add_dur", "time_sub_dur"} -> TimeShifted(a, DurationNs(e.secs, e.ns), SignOf(op))
    [] op \in {"time_add_time", "time_sub_time"} -> TimeShifted(a, TodWide(TodOf(b)), SignOf(op))
    [] op = "time_since" -> {OkVal(TodSince(e.u, TodOf(a), TodOf(b)))}
    [] op = "time_dur_between" -> TimeDurBetween(a, b)
    [] op = "time_cmp" -> TimeCmp(a, b)
    [] op = "time_get" -> TimeFields(a)
    \* the clock fields of a Time read through format() (H m s nnnnn, one symbol per pattern) and through Display
    [] op = "time_fmt_get" -> LET l == TodLocal(TodOf(a), a.off) IN
                              {[k |-> "ok", h |-> Hour(l.sod), mi |-> Minute(l.sod), s |-> Second(l.sod), n |-> l.ns,
                                disp |-> <<Hour(l.sod), Minute(l.sod), Second(l.sod)>>]}
    [] op = "time_set" -> TimeSet(a, e.f, NatOf(e.v), Big(e.v))
    [] op = "time_clear" -> TimeClear(a, e.f)
    [] op = "time_set_offset" -> TimeSetOffset(a, e.o)
    [] op = "time_as_offset" -> TimeAsOffset(a, e.o)
    [] op = "time_from_dt" -> {OkTime(TodOf(a), a.off)}
    [] op = "time_copy" -> {OkTime(TodOf(a), a.off)}
    [] op = "time_default" -> {OkTime([sod |-> 0, ns |-> 0], 0)}
    [] op = "time_from_hms" -> TimeFromHms(e.h, e.mi, e.s)
    [] op = "time_from_seconds" -> TimeFromSeconds(e.s)
    [] op = "time_from_nanos" -> TimeFromNanos(e.n)
    [] op = "off_from_seconds" -> OffFromSeconds(e.s)
    [] op = "off_from_hms" -> OffFromHms(e.h, e.mi, e.s)
    [] op = "off_resolve_hms" -> OffResolveHms(e.o)

\* type of the value an operation returns ("none" for queries)
ResultType(op) ==
  IF op \in {"dt_add", "dt_sub", "dt_add_dur", "dt_sub_dur", "dt_add_time", "dt_sub_time", "dt_add_months",
             "dt_sub_months", "dt_add_years", "dt_sub_years", "dt_from_ts", "dt_set", "dt_clear", "dt_set_offset",
             "dt_as_offset", "dt_from_date", "dt_from_time", "dt_set_time", "dt_from_ymd", "dt_from_hms",
             "dt_from_ymdhms", "dt_copy", "dt_default", "dt_now"} THEN "dt"
  ELSE IF op \in {"date_add", "date_sub", "date_add_dur", "date_sub_dur", "date_add_months", "date_sub_months",
                  "date_add_years", "date_sub_years", "date_from_ts", "date_set", "date_clear", "date_from_dt",
                  "date_from_ymd", "date_copy", "date_default", "date_now"} THEN "date"
  ELSE IF op \in {"time_add", "time_sub", "time_add_dur", "time_sub_dur", "time_add_time", "time_sub_time",
                  "time_set", "time_clear", "time_set_offset", "time_as_offset", "time_from_dt", "time_from_hms",
                  "time_from_seconds", "time_from_nanos", "time_copy", "time_default", "time_now"} THEN "time"
  ELSE "none"
=============================================================================
