----------------------------- MODULE Gen_Cycle -----------------------------
(***************************************************************************)
(* Behaviour generator for conformance channel C: TLC writes the complete  *)
(* behaviour of the calendar over one 400-year era (dn = 0 .. 146096) as   *)
(* one ndjson record per day.  MC_CivilPeriod shows every other era is     *)
(* this one shifted by a multiple of 400 years, so the harness can judge   *)
(* all 2^32 day numbers by table lookup.                                   *)
(***************************************************************************)
EXTENDS Civil, TLC, Json, IOUtils

Out == IOEnv.OUT

Row(c) == LET ymd == Dn2Ymd(c)
          IN <<c, ymd[1] - 1, ymd[2], ymd[3], Weekday(c), Doy(c), IsoWeek(c)>>
             \* c, year-of-era (0..399), month, day, weekday (0 = Sunday), day of year, ISO week

ASSUME ndJsonSerialize(Out, [c \in 1..DaysPerEra |-> Row(c - 1)])
ASSUME PrintT(<<"GENERATED", DaysPerEra>>)
=============================================================================
