--------------------------- MODULE Gen_TZHostile ---------------------------
(***************************************************************************)
(* Channel A for C19: the TZif byte layout (RFC 8536) as a generator of    *)
(* hostile inputs.  A file is  header1 block1 [header2 block2 footer];     *)
(* a header carries six counts (isut, isstd, leap, time, type, char) that  *)
(* determine the block length                                              *)
(*   time*size + time + type*6 + char + leap*(size+4) + isstd + isut.      *)
(* TLC enumerates one mutation descriptor per structural element and value *)
(* class: every count of either header x {0, 1, exact-1, exact+1, 255,     *)
(* 2^24-1, 2^31, 2^32-1}, truncation points across header / blocks /       *)
(* footer, version bytes, transition type indices, and footer strings from *)
(* a mutated POSIX-TZ grammar (impossible months, weeks, days, Julian days,*)
(* times, oversized numbers, missing parts).  The only outcomes C19 allows *)
(* are "error" or "a timezone on which every lookup succeeds"              *)
(* (exp = noncrash): never a panic, never a hang.                          *)
(***************************************************************************)
EXTENDS Integers, Sequences, TLC, Json, IOUtils, SequencesExt, FiniteSets

Shard == atoi(IOEnv.SHARD)
NShards == atoi(IOEnv.NSHARDS)
InShard(k) == k % NShards = Shard
Thorough == IOEnv.TIER = "thorough"

Seeds == 0..7
Exp == <<[k |-> "noncrash"]>>
Case(seed, m) == [op |-> "tz_hostile", seed |-> seed, mut |-> m, exp |-> Exp]

CountVals == {"zero", "one", "minus1", "plus1", "b255", "p31", "max", "big", "plus256", "v256", "v257", "plus65536"}
Counts == {[kind |-> "count", blk |-> b, field |-> f, val |-> v] : b \in {1, 2}, f \in 0..5, v \in CountVals}
Cuts == {[kind |-> "truncate", at |-> a] : a \in {0, 1, 5, 20, 43, 44, 45, 60, 100, 150, 250, 400, 500, 600, 750, 850, 900, 950, 980, 990, 995, 999}}
Versions == {[kind |-> "version", val |-> v, both |-> b] : v \in {0, 1, 49, 50, 51, 52, 255}, b \in BOOLEAN}
TypeIdx == {[kind |-> "typeidx", val |-> v] : v \in {0, 1, 2, 3, 5, 127, 128, 255}}
Magic == {[kind |-> "magic", at |-> a] : a \in 0..3} \cup {[kind |-> "empty"]}
\* the second header's version byte alone (the two headers of a file then disagree about the block layout)
Versions2 == {[kind |-> "version2", val |-> v] : v \in {0, 1, 49, 50, 51, 52, 255}}
\* fields of the local time type records of either block: utoff at and beyond the 32-bit and one-day limits
\* (RFC 8536: -2^31 must not appear), isdst and designation index outside their domains
TypeRecs == {[kind |-> "utoff", blk |-> b, val |-> v] : b \in {1, 2}, v \in {"min", "minp1", "max", "day", "negday", "daym1", "negdaym1"}}
            \cup {[kind |-> "typerec", blk |-> b, field |-> f, val |-> v] : b \in {1, 2}, f \in {"isdst", "abbr"}, v \in {2, 127, 255}}

\* ---- footers from a mutated POSIX-TZ grammar -----------------------------------------
Heads == << <<"A","A","A","-","1","B","B","B">>, <<"A","A","A","1">>, <<"<","+","0","1",">","-","1","<","+","0","2",">">>,
            <<"A","A","A","-","1","B","B","B","-","2">>, <<"A","A","A","2","5","B","B","B">>,
            <<"A","A","A","-","1",":","6","0","B","B","B">>, <<"A">>, <<"<","A">>, <<":","A","A","A">>,
            <<"A","A","A","-","1","B","B","B","-","2","5">>, <<"A","A","A","-","1","B","B","B",":">> >>
Rules == << <<"M","3",".","5",".","0">>, <<"M","1","3",".","1",".","0">>, <<"M","0",".","1",".","0">>, <<"M","3",".","0",".","0">>,
            <<"M","3",".","6",".","0">>, <<"M","3",".","1",".","7">>, <<"J","0">>, <<"J","1">>, <<"J","3","6","5">>, <<"J","3","6","6">>,
            <<"0">>, <<"3","6","5">>, <<"3","6","6">>, <<"M","3",".","5",".","0","/","2","5">>, <<"M","3",".","5",".","0","/","1","6","8">>,
            <<"M","3",".","5",".","0","/","-","1","6","8">>, <<"M","3",".","5",".","0","/","-","1">>,
            <<"M","3",".","5",".","0","/","9","9","9","9","9","9","9","9","9","9","9","9","9","9","9","9","9","9","9","9">>,
            <<"J","9","9","9","9","9","9","9","9","9","9","9","9","9","9","9","9","9","9","9","9">>,
            <<"M",".","1",".","0">>, <<"M","3",".",".","0">>, <<"M","3",".","1",".">>, <<"M">>, <<"J">>, <<>>, <<"/","2">>,
            <<"M","3",".","5",".","0","/">>, <<"M","3",".","5",".","0","/","2",":","6","0">>,
            <<"M","1","2",".","5",".","6","/","2","4",":","5","9",":","5","9">>, <<"J","6","0","/","1","6","7",":","5","9",":","5","9">>,
            <<"M","2","5","5",".","2","5","5",".","2","5","5">>, <<"M","2","5","6",".","1",".","0">>, <<"M","3",".","5",".","0","x">>,
            \* the plain day-of-year form with oversized numbers (u32::MAX, u32::MAX + 1, 20 nines), 366 and 367
            <<"4","2","9","4","9","6","7","2","9","5">>, <<"4","2","9","4","9","6","7","2","9","6">>,
            <<"9","9","9","9","9","9","9","9","9","9","9","9","9","9","9","9","9","9","9","9">>, <<"3","6","7">>,
            <<"J","4","2","9","4","9","6","7","2","9","5">>, <<"M","4","2","9","4","9","6","7","2","9","5",".","1",".","0">> >>
\* well-formed rules in every month: evaluated at both ends of the representable range, where the
\* rule day itself may not be representable
MonthDigits(m) == IF m < 10 THEN <<CHOOSE c \in {"1","2","3","4","5","6","7","8","9"} : c = <<"1","2","3","4","5","6","7","8","9">>[m]>>
                  ELSE <<"1", <<"0","1","2">>[m - 9]>>
EveryMonth == UNION {{ <<"M">> \o MonthDigits(m) \o <<".", "5", ".", "0">>, <<"M">> \o MonthDigits(m) \o <<".", "1", ".", "3">>,
                       <<"M">> \o MonthDigits(m) \o <<".", "3", ".", "2", "/", "2", "4">> } : m \in 1..12}
Comma == <<",">>
FooterText(h, a, b) == Heads[h] \o Comma \o Rules[a] \o Comma \o Rules[b]
Footers == {[kind |-> "footer", text |-> FooterText(h, a, b), noend |-> FALSE] :
               h \in 1..Len(Heads), a \in 1..Len(Rules), b \in (IF Thorough THEN 1..Len(Rules) ELSE {1, 2, 5, 7, 10, 13, 18, 25, 34, 36})}
           \cup {[kind |-> "footer", text |-> Heads[h], noend |-> e] : h \in 1..Len(Heads), e \in BOOLEAN}
           \cup {[kind |-> "footer", text |-> Heads[h] \o Comma \o a \o Comma \o b, noend |-> FALSE] :
                   h \in {1, 3}, a \in EveryMonth, b \in {Rules[1], <<"J","1">>, <<"J","3","6","5">>, <<"0">>, <<"M","7",".","3",".","2">>}}
           \cup {[kind |-> "footer", text |-> Heads[h] \o Comma \o b \o Comma \o a, noend |-> FALSE] :
                   h \in {1}, a \in EveryMonth, b \in {Rules[1], <<"J","6","0">>}}

\* transition times at the extremes of their width (the first at the minimum and the last at the maximum keep the table
\* sorted; the other combinations do not): differences with a probed instant then leave the 64-bit range
TransTimes == {[kind |-> "transtime", which |-> w, val |-> v] : w \in {"first", "last", "all"},
                                                               v \in {"min", "minp1", "minpday", "max", "maxm1", "maxmday", "zero", "neg1"}}
Structural == Counts \cup Cuts \cup Versions \cup Versions2 \cup TypeIdx \cup TypeRecs \cup Magic \cup TransTimes

Cases(z) == {Case(s, m) : s \in {x \in Seeds : InShard(x)}, m \in Structural}
            \cup {Case(s, m) : s \in {0, 2, 4, 5}, m \in {f \in Footers : InShard(Len(f.text))}}

ASSUME LET cs == SetToSeq(Cases(0)) IN ndJsonSerialize(IOEnv.OUT, cs) /\ PrintT(<<"GENERATED", Len(cs)>>)
=============================================================================
