------------------------------ MODULE TimeLine ------------------------------
(***************************************************************************)
(* The time line of astrolabe: an instant is an integer number of          *)
(* nanoseconds, written in mixed radix as [dn, sod, ns] (UTC day number,   *)
(* second of day, nanosecond of second); a DateTime is an instant plus an  *)
(* offset (a view); a Time is a time of day plus an offset.                *)
(*                                                                         *)
(* The radix vector R = <<hours/day, min/hour, sec/min, ms/sec, us/ms,     *)
(* ns/us>> and the representable day range DnLo..DnHi are CONSTANTS: the   *)
(* exhaustive models use a structure-preserving small instance, the trace  *)
(* validators the real one (<<24,60,60,1000,1000,1000>>, -2^31..2^31-1).   *)
(* Everything that can exceed 32 bits is a Wide value.                     *)
(***************************************************************************)
EXTENDS Integers, Sequences, Wide

CONSTANTS R, DnLo, DnHi

SPM == R[3]                      \* seconds per minute
SPH == R[2] * R[3]               \* seconds per hour
SPD == R[1] * R[2] * R[3]        \* seconds per day
NPU == R[6]                      \* nanoseconds per microsecond
NPM == R[5] * R[6]               \* nanoseconds per millisecond
NPS == R[4] * R[5] * R[6]        \* nanoseconds per second
UPS == R[4] * R[5]               \* microseconds per second

Units == {"day", "hour", "minute", "second", "milli", "micro", "nano"}

\* the unit as the sequence of small radices whose product is its length in nanoseconds
UnitRadices(u) == CASE u = "nano"   -> <<>>
                    [] u = "micro"  -> <<R[6]>>
                    [] u = "milli"  -> <<R[6], R[5]>>
                    [] u = "second" -> <<R[6], R[5], R[4]>>
                    [] u = "minute" -> <<R[6], R[5], R[4], R[3]>>
                    [] u = "hour"   -> <<R[6], R[5], R[4], R[3], R[2]>>
                    [] u = "day"    -> <<R[6], R[5], R[4], R[3], R[2], R[1]>>

Inst(dn, sod, ns) == [dn |-> dn, sod |-> sod, ns |-> ns]
IsInst(x) == x.dn \in DnLo..DnHi /\ x.sod \in 0..(SPD - 1) /\ x.ns \in 0..(NPS - 1)

\* total nanoseconds since 0001-01-01T00:00:00Z, wide
ToWide(x) == Add(MulSeq(Add(MulSmall(FromInt(x.dn), SPD), FromInt(x.sod)), <<R[4], R[5], R[6]>>, 1), FromInt(x.ns))

\* wide nanoseconds -> [dnw (wide day number), sod, ns]; floor semantics
Split(w) ==
  LET a == DivModSmall(w, R[6])
      b == DivModSmall(a[1], R[5])
      c == DivModSmall(b[1], R[4])
      d == DivModSmall(c[1], SPD)
  IN [dnw |-> d[1], sod |-> d[2], ns |-> (c[2] * R[5] + b[2]) * R[6] + a[2]]

DayInRange(dnw) == Cmp(dnw, FromInt(DnLo)) >= 0 /\ Cmp(dnw, FromInt(DnHi)) <= 0

\* native value of a wide number known to lie in DnLo..DnHi
ToInt32(w) == IF w = FromInt(MinInt32) THEN MinInt32 ELSE ToInt(w)

Panic == [k |-> "panic"]
AnyOutcome == [k |-> "any"]          \* the property is silent: every outcome is allowed
ErrOOR == [k |-> "err", v |-> "OutOfRange"]

\* the instant with wide value w if representable
FromWide(w) == LET s == Split(w)
               IN IF DayInRange(s.dnw) THEN [k |-> "ok", inst |-> Inst(ToInt32(s.dnw), s.sod, s.ns)]
                  ELSE Panic

(***************************************************************************)
(* C04: moving an instant by an exact amount                               *)
(***************************************************************************)
Amount(n, u) == MulSeq(n, UnitRadices(u), 1)            \* n (wide, >= 0) units in nanoseconds
DurationNs(secs, ns) == Add(MulSeq(secs, <<R[4], R[5], R[6]>>, 1), FromInt(ns))

Shift(x, amountNs, sign) ==
  FromWide(IF sign > 0 THEN Add(ToWide(x), amountNs) ELSE Sub(ToWide(x), amountNs))

(***************************************************************************)
(* C06: elapsed units, truncated toward zero                               *)
(***************************************************************************)
Diff(a, b) == Sub(ToWide(a), ToWide(b))
Since(u, a, b) == TruncDivSeq(Diff(a, b), UnitRadices(u))
AbsDiff(a, b) == Abs(Diff(a, b))
\* a Duration as <<whole seconds (wide), nanoseconds>>
AsDuration(w) == LET a == DivModSmall(w, R[6])
                     b == DivModSmall(a[1], R[5])
                     c == DivModSmall(b[1], R[4])
                 IN <<c[1], (c[2] * R[5] + b[2]) * R[6] + a[2]>>

CmpInst(a, b) == Sign(Diff(a, b))

(***************************************************************************)
(* C10/C09: the local view.  off is a number of seconds, |off| < SPD.      *)
(* LocalOf may step outside DnLo..DnHi by one day: "ok" = FALSE then.      *)
(***************************************************************************)
LocalOf(x, off) ==
  LET s2 == x.sod + off
      carry == IF s2 < 0 THEN -1 ELSE IF s2 >= SPD THEN 1 ELSE 0
  IN IF (carry = 1 /\ x.dn = DnHi) \/ (carry = -1 /\ x.dn = DnLo)
     THEN [ok |-> FALSE]
     ELSE [ok |-> TRUE, dn |-> x.dn + carry, sod |-> s2 - carry * SPD, ns |-> x.ns]

\* the instant whose local view under off is (dn, sod, ns)
UtcOf(l, off) ==
  LET s2 == l.sod - off
      carry == IF s2 < 0 THEN -1 ELSE IF s2 >= SPD THEN 1 ELSE 0
  IN IF (carry = 1 /\ l.dn = DnHi) \/ (carry = -1 /\ l.dn = DnLo)
     THEN [ok |-> FALSE]
     ELSE [ok |-> TRUE, dn |-> l.dn + carry, sod |-> s2 - carry * SPD, ns |-> l.ns]

Hour(sod) == sod \div SPH
Minute(sod) == (sod % SPH) \div SPM
Second(sod) == sod % SPM
Milli(ns) == ns \div NPM
Micro(ns) == ns \div NPU

ValidOffset(o) == o > -SPD /\ o < SPD

(***************************************************************************)
(* C09: clock-field setters and clears on a (sod, ns) pair                 *)
(***************************************************************************)
ClockFields == {"hour", "minute", "second", "milli", "micro", "nano"}
ClockMax(f) == CASE f = "hour" -> R[1] - 1 [] f = "minute" -> R[2] - 1 [] f = "second" -> R[3] - 1
                 [] f = "milli" -> R[4] - 1 [] f = "micro" -> UPS - 1 [] f = "nano" -> NPS - 1

\* v is known to be in 0..ClockMax(f)
SetClock(sod, ns, f, v) ==
  CASE f = "hour"   -> <<v * SPH + (sod % SPH), ns>>
    [] f = "minute" -> <<Hour(sod) * SPH + v * SPM + Second(sod), ns>>
    [] f = "second" -> <<(sod \div SPM) * SPM + v, ns>>
    [] f = "milli"  -> <<sod, v * NPM + (ns % NPM)>>
    [] f = "micro"  -> <<sod, v * NPU + (ns % NPU)>>
    [] f = "nano"   -> <<sod, v>>

\* clear_until_<f>: f and everything finer to its minimum; sub-second units are digit groups
ClearClock(sod, ns, f) ==
  CASE f = "hour"   -> <<0, 0>>
    [] f = "minute" -> <<Hour(sod) * SPH, 0>>
    [] f = "second" -> <<(sod \div SPM) * SPM, 0>>
    [] f = "milli"  -> <<sod, 0>>
    [] f = "micro"  -> <<sod, (ns \div NPM) * NPM>>
    [] f = "nano"   -> <<sod, (ns \div NPU) * NPU>>

(***************************************************************************)
(* C08: time of day, arithmetic modulo one day.  A Time is [sod, ns].      *)
(***************************************************************************)
TodWide(t) == Add(MulSeq(FromInt(t.sod), <<R[4], R[5], R[6]>>, 1), FromInt(t.ns))
DayNs == MulSeq(FromInt(SPD), <<R[4], R[5], R[6]>>, 1)
\* wide nanoseconds (any sign) reduced modulo one day
TodOfWide(w) == LET s == Split(w) IN [sod |-> s.sod, ns |-> s.ns]
TodShift(t, amountNs, sign) ==
  TodOfWide(IF sign > 0 THEN Add(TodWide(t), amountNs) ELSE Sub(TodWide(t), amountNs))
IsCanonicalTod(w) == ~w.neg /\ Cmp(w, DayNs) < 0
TodLocal(t, off) == LET s2 == (t.sod + off + SPD) % SPD IN [sod |-> s2, ns |-> t.ns]
TodUtc(l, off) == LET s2 == (l.sod - off + SPD) % SPD IN [sod |-> s2, ns |-> l.ns]
TodSince(u, a, b) == TruncDivSeq(Sub(TodWide(a), TodWide(b)), UnitRadices(u))
=============================================================================
