------------------------------ MODULE MC_Months ------------------------------
(***************************************************************************)
(* Exhaustive model of calendar-month arithmetic on the real calendar:     *)
(* state = a day number inside a window of years straddling 0001-01-01     *)
(* (and one around a range end), step = add or subtract k months.  Every   *)
(* step asserts the clauses of C05 and the consistency of C07's closed     *)
(* form MonthsSinceExact with its declarative definition (the unique n     *)
(* with b + n months <= a < b + (n+1) months).                             *)
(***************************************************************************)
EXTENDS Months, TLC

CONSTANTS YearLo, YearHi, Steps
VARIABLE d

YLoQ == -4
YLoF == -9
StepsQ == {-25, -13, -12, -11, -2, -1, 0, 1, 2, 11, 12, 13, 25}
StepsF == (-25..25) \cup {-120, -49, -48, -47, 47, 48, 49, 120}

InWindow(dn) == LET y == Dn2Ymd(dn)[1] IN y >= YearLo /\ y <= YearHi

Init == d \in {Ymd2Dn(1, 1, 1), Ymd2Dn(-1, 1, 31), Ymd2Dn(-1, 2, 29), Ymd2Dn(1, 3, 30), Ymd2Dn(-4, 5, 17),
               Ymd2Dn(4, 2, 29), Ymd2Dn(2, 12, 31), Ymd2Dn(-2, 8, 28)}

Midnight(dn) == <<dn, 0, 0>>

StepOK(k, r) ==
  LET a == Dn2Ymd(d)  b == Dn2Ymd(r.dn) IN
  /\ MonthIdx(b[1], b[2]) = MonthIdx(a[1], a[2]) + k                  \* exactly k calendar months away
  /\ b[3] = MinOf(a[3], MonthLen(b[1], b[2]))                          \* same day, clamped to the month end
  /\ b[1] # 0                                                          \* year -1 is followed by year 1
  /\ (k % 12 = 0 /\ ~(a[2] = 2 /\ a[3] = 29) => b[2] = a[2] /\ b[3] = a[3])   \* whole years keep month and day
  \* C07: the closed form is the unique n of the declarative definition (day of month <= 28)
  /\ (a[3] <= 28 /\ k >= 0 =>
        /\ MonthsSinceExact(Midnight(r.dn), Midnight(d)) = k
        /\ \A n \in (k - 2)..(k + 2) :
             LET lo == ShiftMonths(d, n)  hi == ShiftMonths(d, n + 1)
             IN (lo.k = "ok" /\ hi.k = "ok") =>
                  ((lo.dn <= r.dn /\ r.dn < hi.dn) <=> n = k))
  \* one day short of the target is one month less (for days that exist in every month)
  /\ (a[3] <= 28 /\ k >= 1 => MonthsSinceExact(Midnight(r.dn - 1), Midnight(d)) = k - 1)
  /\ (a[3] <= 28 /\ k >= 1 => MonthsSinceExact(<<r.dn - 1, 86399, 999999999>>, <<d, 0, 0>>) = k - 1)

Next == \E k \in Steps :
          LET r == ShiftMonths(d, k) IN
          /\ r.k = "ok" /\ InWindow(r.dn)
          /\ Assert(StepOK(k, r), <<"month step violated", d, k, r>>)
          /\ d' = r.dn
\* also walk day by day so that every day of the window is a start date
Tick == InWindow(d + 1) /\ d' = d + 1

Spec == Init /\ [][Next \/ Tick]_d

\* range ends: the step panics exactly when the target is not representable (evaluated once)
ASSUME ShiftMonths(MinDn, -1).k = "panic" /\ ShiftMonths(MinDn, 1).k = "ok" /\ ShiftMonths(MaxDn, 1).k = "panic"
ASSUME ShiftMonths(MaxDn, -141110652).k = "ok" /\ ShiftMonths(MaxDn, -141110653).k = "panic"
ASSUME ShiftMonthsWide(0, FromDigits(<<4, 2, 9, 4, 9, 6, 7, 2, 9, 5>>), 12, 1).k = "panic"
ASSUME Dn2Ymd(ShiftMonths(Ymd2Dn(1, 1, 15), -1).dn) = <<-1, 12, 15>>
ASSUME Dn2Ymd(ShiftMonths(Ymd2Dn(2022, 3, 31), -1).dn) = <<2022, 2, 28>>
ASSUME Dn2Ymd(ShiftMonths(Ymd2Dn(2024, 2, 29), 12).dn) = <<2025, 2, 28>>
ASSUME MonthsSinceExact(<<Ymd2Dn(2022, 3, 1), 0, 0>>, <<Ymd2Dn(2022, 1, 31), 0, 0>>) = 1
=============================================================================
