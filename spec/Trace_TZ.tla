------------------------------ MODULE Trace_TZ ------------------------------
(***************************************************************************)
(* Batch validation of timezone lookups recorded on real zone files (C18,  *)
(* channel B).  One record per (zone file, encoding):                      *)
(*   file  the abstract TZif file as read by the harness's own reader      *)
(*   ts    the probed instants <<dn, sod>>                                 *)
(*   res   what astrolabe's reader resolved: [k |-> "ok", offs]            *)
(*   zi    what CPython's zoneinfo says for the same bytes and instants    *)
(* Each observed offset must be one TZif!Lookup allows.  zoneinfo is a     *)
(* second opinion on the specification and on the harness's reader: a      *)
(* disagreement with it is reported separately (a tool problem, not a      *)
(* verdict on the code).                                                   *)
(***************************************************************************)
EXTENDS TZif, TLC, Json, IOUtils, FiniteSets, SequencesExt

Rec == ndJsonDeserialize(IOEnv.TRACE)

Allowed(tz, t) == Lookup(tz, t)
OkAt(a, v) == a.any \/ v = a.off

\* indices of instants where the implementation / zoneinfo disagree with the specification
\* a file whose footer disagrees with its last transition is outside C18's premise from that
\* transition on: only the instants before it are judged
Judged(r, i) == FooterConsistent(r.file) \/ Len(r.file.trans) = 0
                \/ TLt(r.ts[i], r.file.trans[Len(r.file.trans)].t)
\* Offset::Local reads the clock itself: the offset of either bracketing instant is accepted
Either(r) == "either" \in DOMAIN r
BadImpl(r) == IF r.res.k # "ok" THEN {0}
              ELSE IF Either(r)
              THEN (IF \E i \in 1..Len(r.ts) : OkAt(Allowed(r.file, r.ts[i]), r.res.offs[i]) THEN {} ELSE {1})
              ELSE {i \in 1..Len(r.ts) : Judged(r, i) /\ ~OkAt(Allowed(r.file, r.ts[i]), r.res.offs[i])}
BadZi(r) == IF "zi" \in DOMAIN r
            THEN {i \in 1..Len(r.ts) : Judged(r, i) /\ ~OkAt(Allowed(r.file, r.ts[i]), r.zi[i])} ELSE {}

Judge(r) == [i |-> r.i, zone |-> r.zone, enc |-> r.enc, consistent |-> FooterConsistent(r.file),
             impl |-> SetToSortSeq(BadImpl(r), <), zi |-> SetToSortSeq(BadZi(r), <),
             first |-> LET b == BadImpl(r) \cup BadZi(r) IN
                       IF b = {} \/ b = {0} THEN <<>>
                       ELSE LET k == CHOOSE x \in b : \A y \in b : x <= y
                            IN <<r.ts[k], r.unix[k], Allowed(r.file, r.ts[k]), r.res.offs[k]>>]

Results == [k \in 1..Len(Rec) |-> Judge(Rec[k])]
BadSeq == SelectSeq(Results, LAMBDA j : j.impl # <<>> \/ j.zi # <<>>)

Lookups == LET RECURSIVE Sum(_) Sum(k) == IF k = 0 THEN 0 ELSE Len(Rec[k].ts) + Sum(k - 1) IN Sum(Len(Rec))

ASSUME ndJsonSerialize(IOEnv.OUT, BadSeq)
ASSUME PrintT(<<"VALIDATED", Lookups, "BAD", Len(BadSeq)>>)
=============================================================================
