--------------------------- MODULE MC_CivilPeriod ---------------------------
(***************************************************************************)
(* The closed forms of Civil are periodic with period 146097 days = 400    *)
(* years: every field of day r + 146097k equals the field of day r with    *)
(* the astronomical year shifted by 400k.  Stride lets the quick tier      *)
(* sample residues; the thorough tier uses Stride = 1.                     *)
(***************************************************************************)
EXTENDS Civil, TLC, IOUtils, FiniteSets

Stride == atoi(IOEnv.STRIDE)

Shifts == {-14699, -7000, -1, 1, 7000, 14698}
ShiftYear(y, k) == Label(Astro(y) + 400 * k)

SameShifted(r, k) ==
  LET dn == r + DaysPerEra * k
      a == Dn2Ymd(r)
      b == Dn2Ymd(dn)
  IN /\ b = <<ShiftYear(a[1], k), a[2], a[3]>>
     /\ Weekday(dn) = Weekday(r) /\ Doy(dn) = Doy(r) /\ IsoWeek(dn) = IsoWeek(r)
     /\ Ymd2Dn(b[1], b[2], b[3]) = dn

Residues == {r \in 0..(DaysPerEra - 1) : r % Stride = 0}
Bad == {<<r, k>> \in Residues \X Shifts : ~SameShifted(r, k)}

\* the two partial eras at the ends of the 32-bit range
LowEnd  == {i \in 0..3844 : LET dn == MinDn + i
                                a == Dn2Ymd(dn + DaysPerEra)
                            IN Dn2Ymd(dn) # <<ShiftYear(a[1], -1), a[2], a[3]>>
                               \/ Weekday(dn) # Weekday(dn + DaysPerEra)
                               \/ IsoWeek(dn) # IsoWeek(dn + DaysPerEra)
                               \/ Ymd2Dn(Dn2Ymd(dn)[1], Dn2Ymd(dn)[2], Dn2Ymd(dn)[3]) # dn}
HighEnd == {i \in 0..3844 : LET dn == MaxDn - i
                                a == Dn2Ymd(dn - DaysPerEra)
                            IN Dn2Ymd(dn) # <<ShiftYear(a[1], 1), a[2], a[3]>>
                               \/ Weekday(dn) # Weekday(dn - DaysPerEra)
                               \/ IsoWeek(dn) # IsoWeek(dn - DaysPerEra)
                               \/ Ymd2Dn(Dn2Ymd(dn)[1], Dn2Ymd(dn)[2], Dn2Ymd(dn)[3]) # dn}

ASSUME PrintT(<<"PERIOD", Cardinality(Residues) * Cardinality(Shifts) + 2 * 3845, Bad, LowEnd, HighEnd>>)
ASSUME Bad = {} /\ LowEnd = {} /\ HighEnd = {}
=============================================================================
