----------------------------- MODULE MC_Rfc3339 -----------------------------
(***************************************************************************)
(* Specification sanity for C13: the RFC 3339 recognizer/denotation        *)
(* (module Rfc3339, used to judge every observed read and write) against   *)
(* an independent writer.  For every value of a boundary grid and every    *)
(* precision, the text the grammar prescribes is recognized, denotes the   *)
(* same local fields, the same offset and the fraction cut to the          *)
(* precision; and the recognizer is total: every single-character edit of  *)
(* such a text is classified (ok / range / any / no) without an evaluation *)
(* error.                                                                  *)
(***************************************************************************)
EXTENDS Rfc3339, TLC, FiniteSets

P10(k) == CASE k = 0 -> 1 [] k = 1 -> 10 [] k = 2 -> 100 [] k = 3 -> 1000 [] k = 4 -> 10000 [] k = 5 -> 100000
            [] k = 6 -> 1000000 [] k = 7 -> 10000000 [] k = 8 -> 100000000 [] k = 9 -> 1000000000
Abs(n) == IF n < 0 THEN -n ELSE n

OffText(off) == IF off = 0 THEN <<"Z">>
                ELSE (IF off < 0 THEN <<"-">> ELSE <<"+">>) \o ZeroPad(Abs(off) \div 3600, 2) \o <<":">> \o ZeroPad((Abs(off) % 3600) \div 60, 2)
FracText(ns, prec) == IF prec = 0 THEN <<>> ELSE <<".">> \o ZeroPad(ns \div P10(9 - prec), prec)
RfcText(y, m, d, h, mi, s, ns, off, prec) ==
  ZeroPad(y, 4) \o <<"-">> \o ZeroPad(m, 2) \o <<"-">> \o ZeroPad(d, 2) \o <<"T">> \o ZeroPad(h, 2) \o <<":">> \o ZeroPad(mi, 2)
  \o <<":">> \o ZeroPad(s, 2) \o FracText(ns, prec) \o OffText(off)

Years == {1, 999, 1000, 1900, 2024, 9999}
MonthDays == {<<1, 1>>, <<2, 28>>, <<2, 29>>, <<6, 30>>, <<12, 31>>}
Dates == {<<y, md[1], md[2]>> : y \in Years, md \in {x \in MonthDays : TRUE}}
ValidDates == {t \in Dates : ValidYmd(t[1], t[2], t[3])}
Hours == {0, 12, 23}   Mins == {0, 59}   Secs == {0, 59}
Nanos == {0, 1, 123456789, 500000000, 999999999}
Offs == {0, 60, -60, 3600, -19800, 86340, -86340}
Precs == {0, 2, 3, 6, 9}

WriteReadOK(t, h, mi, s, ns, off, prec) ==
  LET q == ParseRfc(RfcText(t[1], t[2], t[3], h, mi, s, ns, off, prec))
      cut == P10(9 - prec)
  IN /\ q.k = "ok"
     /\ <<q.y, q.m, q.d, q.h, q.mi, q.s>> = <<t[1], t[2], t[3], h, mi, s>>
     /\ Len(q.frac) = prec /\ FracNs(q.frac, 1, 0) = (ns \div cut) * cut /\ ~CutOff(q.frac)
     /\ q.off = off

ASSUME \A t \in ValidDates, h \in Hours, mi \in Mins, s \in Secs, ns \in Nanos, off \in Offs, prec \in Precs :
         WriteReadOK(t, h, mi, s, ns, off, prec)

\* dates that do not exist are grammatical but out of range
ASSUME \A t \in Dates \ ValidDates : ParseRfc(RfcText(t[1], t[2], t[3], 12, 0, 0, 0, 0, 0)).k = "range"

\* totality on hostile neighbours of well-formed texts
Alphabet == <<"0", "9", "-", "+", ":", ".", "T", "t", "Z", "z", " ", "x">>
Seeds == {RfcText(2024, 2, 29, 23, 59, 59, 999999999, -19800, 9), RfcText(1, 1, 1, 0, 0, 0, 0, 0, 0), RfcText(9999, 12, 31, 12, 30, 0, 5, 3600, 3)}
Edits(t) == {SubSeq(t, 1, i - 1) \o SubSeq(t, i + 1, Len(t)) : i \in 1..Len(t)}
            \cup {SubSeq(t, 1, i) : i \in 0..Len(t)}
            \cup {SubSeq(t, 1, i - 1) \o <<Alphabet[c]>> \o SubSeq(t, i + 1, Len(t)) : i \in 1..Len(t), c \in 1..Len(Alphabet)}
            \cup {SubSeq(t, 1, i - 1) \o <<Alphabet[c]>> \o SubSeq(t, i, Len(t)) : i \in 1..(Len(t) + 1), c \in 1..Len(Alphabet)}
ASSUME \A t \in Seeds : \A e \in Edits(t) : ParseRfc(e).k \in {"ok", "range", "any", "no"}
ASSUME PrintT(<<"RFC3339", Cardinality(ValidDates) * 3 * 2 * 2 * 5 * 7 * 5, "write-read pairs",
                Cardinality(UNION {Edits(t) : t \in Seeds}), "edits">>)
=============================================================================
