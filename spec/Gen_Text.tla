------------------------------ MODULE Gen_Text ------------------------------
(***************************************************************************)
(* Channel A inputs for the text properties.  TLC enumerates the INPUTS    *)
(* (value x pattern, strings); the harness executes them on the real code  *)
(* (`harness observe`) and the observations are judged by Trace_Text, i.e. *)
(* by the same Pattern / Rfc3339 operators as the random observations.     *)
(*  C11  every symbol x width 1..10 x boundary values; all patterns up to  *)
(*       length 5 over a quoting alphabet; composite patterns              *)
(*  C12  patterns of the unambiguous grammar (1..3 fields of a reduced     *)
(*       variant set, plus full patterns) x boundary values                *)
(*  C13  RFC 3339 strings: dates x times x fraction lengths 1..40 x digit  *)
(*       shapes x offsets, and single-field mutations; write side values   *)
(*  C14  families of hostile (input, pattern) pairs, expanded exhaustively *)
(*       by the harness: each single symbol x width x all strings up to    *)
(*       length 4 over a 9-character alphabet, truncations/substitutions   *)
(*  C20  values for Display / FromStr / serde                              *)
(***************************************************************************)
EXTENDS Civil, Text, TLC, Json, IOUtils, SequencesExt, FiniteSets

Which == IOEnv.WHICH
Thorough == IOEnv.TIER = "thorough"
Shard == atoi(IOEnv.SHARD)
NShards == atoi(IOEnv.NSHARDS)
InShard(k) == k % NShards = Shard
First == Shard = 0

Dt(dn, sod, ns, off) == [ty |-> "dt", dn |-> dn, sod |-> sod, ns |-> ns, off |-> off]
Dat(dn) == [ty |-> "date", dn |-> dn]
Tm(sod, ns, off) == [ty |-> "time", sod |-> sod, ns |-> ns, off |-> off]
D(y, m, d) == Ymd2Dn(y, m, d)

Symbols == <<"G", "y", "q", "M", "w", "d", "D", "e", "a", "b", "h", "H", "K", "k", "m", "s", "n", "X", "x">>
RECURSIVE Rep(_, _)
Rep(c, n) == IF n = 0 THEN <<>> ELSE <<c>> \o Rep(c, n - 1)

\* ---- boundary values ------------------------------------------------------------------
YearDays == {D(1, 1, 1), D(9, 12, 31), D(10, 1, 1), D(99, 6, 15), D(100, 3, 1), D(2017, 9, 5), D(9999, 12, 31), D(10000, 1, 1),
             D(20173, 2, 3), D(-1, 12, 31), D(-6, 2, 28), D(-2022, 5, 2), MinDn + 2, MaxDn - 2}
WeekDays == {D(2020, 12, 28), D(2020, 12, 31), D(2021, 1, 1), D(2021, 1, 3), D(2021, 1, 4), D(2024, 12, 29), D(2024, 12, 30),
             D(2026, 1, 1), D(2026, 12, 31), D(2027, 1, 3), D(2022, 5, 2), D(2024, 2, 29), D(2022, 10, 9), D(2022, 11, 30),
             D(-1, 1, 1), D(-4, 12, 31)}
\* every entry of every name table: fourteen consecutive days (each weekday twice, a leap day, a month change) and
\* the 15th of every month
NameDays == {D(2024, 2, 26) + k : k \in 0..13} \cup {D(2023, m, 15) : m \in 1..12} \cup {D(-1, 12, 25) + k : k \in 0..13}
Clock == {<<0, 0>>, <<0, 1>>, <<1, 0>>, <<3599, 999999999>>, <<3600, 0>>, <<39599, 0>>, <<43199, 999999999>>, <<43200, 0>>, <<43200, 1>>,
          <<43201, 0>>, <<46800, 999>>, <<82800, 999999>>, <<86399, 999999999>>, <<45296, 123456789>>, <<45296, 100000000>>,
          <<45296, 1000>>, <<86340, 0>>}
Offs == {0, 1, -1, 59, -59, 60, -60, 3600, -3600, 19800, -19800, 45240, 86399, -86399}

DtValues == {Dt(d, 45296, 123456789, 0) : d \in YearDays \cup WeekDays \cup NameDays}
            \cup {Dt(D(2022, 5, 2), c[1], c[2], 0) : c \in Clock}
            \cup {Dt(D(2022, 5, 2), 45296, 5, o) : o \in Offs}
            \cup {Dt(D(2022, 12, 31), 86399, 999999999, 3600), Dt(D(1, 1, 1), 0, 0, -3600), Dt(D(2024, 3, 1), 1800, 0, -7200)}
DateValues == {Dat(d) : d \in YearDays \cup WeekDays \cup NameDays \cup {MinDn, MaxDn}}
TimeValues == {Tm(c[1], c[2], 0) : c \in Clock} \cup {Tm(45296, 5, o) : o \in Offs}
ValuesOf(ty) == CASE ty = "dt" -> DtValues [] ty = "date" -> DateValues [] ty = "time" -> TimeValues

Fmt(val, p) == [op |-> "format", val |-> val, p |-> p]

\* ---- C11 ----------------------------------------------------------------------------------
QuoteAlphabet == <<"y", "M", "'", "-", "Q", "H">>
RECURSIVE Strings(_, _)
\* all sequences over the alphabet of length exactly n
Strings(al, n) == IF n = 0 THEN {<<>>} ELSE {Append(s, al[i]) : s \in Strings(al, n - 1), i \in 1..Len(al)}
Composite == << <<"y","y","y","y","-","M","M","-","d","d","'","T","'","H","H",":","m","m",":","s","s",".","n","n","n","X","X","X">>,
                <<"e","e","e","e",","," ","d"," ","M","M","M","M"," ","y"," ","G">>,
                <<"h",":","m","m"," ","a"," ","'","o","'","'","c","l","o","c","k","'">>,
                <<"D","D","D","/","y","y"," ","w","w"," ","q","q","q","q">>,
                <<"K","K","b","b","b","b","b","k","k","x","x","x","x","x">>,
                <<"'","'","y","'","'","'","y","'","y">>,
                <<"y","y","y","y","é","M","M","日","d","d">>,
                <<"'","'","'","'">>, <<"'","a","'","'","b","'">>, <<"y","'","'","y">> >>
C11(z) ==
  UNION {{Fmt(v, Rep(Symbols[i], w)) : v \in ValuesOf(ty)} : ty \in {"dt", "date", "time"}, i \in {x \in 1..Len(Symbols) : InShard(x)}, w \in 1..10}
  \cup UNION {{Fmt(v, p) : v \in {Dt(D(2022, 5, 2), 45296, 123456789, 3600), Dat(D(-5, 2, 29)), Tm(3600, 1, -60)}} :
                p \in UNION {Strings(QuoteAlphabet, n) : n \in (IF First THEN 1..(IF Thorough THEN 6 ELSE 5) ELSE {})}}
  \cup {Fmt(v, Composite[i]) : i \in {x \in 1..Len(Composite) : InShard(x)}, v \in DtValues}
  \* two runs of different symbols directly next to each other, every ordered pair (a run ends where the letter changes,
  \* also when only its case changes: "ddDDD", "hhHH", "mmMM")
  \cup UNION {{Fmt(v, Rep(Symbols[i], w[1]) \o Rep(Symbols[j], w[2])) :
                  v \in {Dt(D(2022, 7, 5), 45296, 123456789, 3600), Dat(D(-5, 2, 29)), Tm(83045, 1, -60)}} :
              i \in {x \in 1..Len(Symbols) : InShard(x)}, j \in 1..Len(Symbols), w \in {<<2, 3>>, <<1, 2>>}}

\* ---- C02: the w / q / e / D fields at every width on runs of consecutive days (all weekdays, year ends) -----
C02(z) ==
  LET days == NameDays \cup {D(2020, 12, 27) + k : k \in 0..9} \cup {D(2024, 12, 27) + k : k \in 0..9} \cup {D(2021, 12, 27) + k : k \in 0..9}
  IN UNION {{Fmt(Dat(d), Rep(c, w)), Fmt(Dt(d, 82800, 5, 7200), Rep(c, w))} : d \in {x \in days : InShard(x)}, c \in {"w", "q", "e", "D"}, w \in 1..10}
     \* the same fields directly beside a run of any other symbol, in either order
     \cup UNION {{Fmt(Dat(d), Rep(c, 3) \o Rep(Symbols[j], 2)), Fmt(Dt(d, 82800, 5, 7200), Rep(Symbols[j], 2) \o Rep(c, 3))} :
                   d \in {x \in {D(2022, 7, 5), D(2024, 12, 30), D(-5, 2, 29), D(2021, 1, 3)} : InShard(x)},
                   c \in {"w", "q", "e", "D"}, j \in 1..Len(Symbols)}

\* ---- C12 ----------------------------------------------------------------------------------
S(str) == str
YearF == << <<"y">>, <<"y","y","y">>, <<"y","y","y","y">>, <<"y","y","y","y","y">>, <<"y","y","y","y","y","y","y","y">> >>
MonthF == << <<"M">>, <<"M","M">>, <<"M","M","M">>, <<"M","M","M","M">> >>
DayF == << <<"d">>, <<"d","d">> >>
DoyF == << <<"D">>, <<"D","D">>, <<"D","D","D">> >>
HourF == << <<"H">>, <<"H","H">>, <<"k">>, <<"k","k">> >>
Hour12F == << <<"h">>, <<"h","h">>, <<"K">>, <<"K","K">> >>
PeriodF == << <<"a">>, <<"a","a","a">>, <<"a","a","a","a">>, <<"a","a","a","a","a">>, <<"b">>, <<"b","b","b">>, <<"b","b","b","b">>, <<"b","b","b","b","b">> >>
MinF == << <<"m">>, <<"m","m">> >>
SecF == << <<"s">>, <<"s","s">> >>
SubF == << <<"n">>, <<"n","n">>, <<"n","n","n">>, <<"n","n","n","n">>, <<"n","n","n","n","n">> >>
ZoneF == << <<"X">>, <<"X","X">>, <<"X","X","X">>, <<"X","X","X","X">>, <<"X","X","X","X","X">>,
            <<"x">>, <<"x","x">>, <<"x","x","x">>, <<"x","x","x","x">>, <<"x","x","x","x","x">> >>
DecoF == << <<"G">>, <<"G","G","G","G">>, <<"G","G","G","G","G">>, <<"q">>, <<"q","q","q">>, <<"q","q","q","q">>, <<"w">>, <<"w","w">>,
            <<"e">>, <<"e","e","e">>, <<"e","e","e","e">>, <<"e","e","e","e","e","e">>, <<"e","e","e","e","e","e","e","e">> >>
Seps == << <<"-">>, <<"/">>, <<" ">>, <<"'","T","'">>, <<",", " ">>, <<"'"," ","a","t"," ","'">>, <<"'","o","'","'","c","l","o","c","k"," ","'">>,
           <<"年">>, <<"·">>, <<" ", "→", " ">> >>
Elems(F) == {F[i] : i \in 1..Len(F)}

\* full date x full time x zone, every variant combination of the reduced sets, one separator scheme per shard
FullPatterns(z) ==
  {y \o Seps[1] \o m \o Seps[1] \o d \o Seps[4] \o h \o <<":">> \o mi \o <<":">> \o s \o <<".">> \o n \o Seps[3] \o zz :
     y \in Elems(YearF), m \in Elems(MonthF), d \in Elems(DayF), h \in Elems(HourF), mi \in Elems(MinF), s \in Elems(SecF),
     n \in {SubF[5], SubF[3]}, zz \in {ZoneF[i] : i \in {j \in {3, 5, 7, 10, 1, 4, 2, 9} : InShard(j)}}}
Full12(z) ==
  {y \o Seps[2] \o dd \o Seps[5] \o h \o Seps[3] \o pd \o <<":">> \o MinF[2] \o <<":">> \o SecF[2] \o Seps[3] \o SubF[5] \o Seps[3] \o ZoneF[5] \o Seps[3] \o deco :
     y \in Elems(YearF), dd \in Elems(DoyF), h \in Elems(Hour12F), pd \in {PeriodF[i] : i \in {j \in 1..Len(PeriodF) : InShard(j)}},
     deco \in Elems(DecoF)}
\* one, two and three fields in every order with every separator
AllF == Elems(YearF) \cup Elems(MonthF) \cup Elems(DayF) \cup Elems(DoyF) \cup Elems(HourF) \cup Elems(MinF) \cup Elems(SecF)
        \cup Elems(SubF) \cup Elems(ZoneF) \cup Elems(DecoF) \cup Elems(Hour12F) \cup Elems(PeriodF)
AllFSeq == SetToSeq(AllF)
MyF == {AllFSeq[i] : i \in {j \in 1..Len(AllFSeq) : InShard(j)}}        \* this shard's share of the first field
Pairs(z) == {a \o sp \o b : a \in MyF, b \in AllF, sp \in (IF Thorough THEN {Seps[1], Seps[3], Seps[6], Seps[8]} ELSE {Seps[3], Seps[8]})}
Singles == MyF \cup {Seps[4] \o a \o Seps[7] : a \in MyF}

C12Values(ty) ==
  CASE ty = "dt" -> {Dt(D(2022, 10, 9), 45296, 123456789, -19800), Dt(D(-5, 2, 29), 0, 0, 0),
                     Dt(D(9999, 12, 31), 86399, 999999999, 3600), Dt(D(1, 1, 1), 43200, 0, 45240),
                     Dt(D(2024, 3, 1), 1200, 0, -1800)}
                    \cup (IF Thorough THEN {Dt(d, c[1], c[2], o) : d \in {D(2022, 5, 2), D(2024, 12, 30), D(10000, 1, 1)},
                                                                    c \in {<<3600, 500000000>>, <<46800, 1000>>}, o \in {0, -86340}} ELSE {})
    [] ty = "date" -> {Dat(D(2022, 10, 9)), Dat(D(-5, 2, 29)), Dat(D(9999, 12, 31)), Dat(D(1, 1, 1)), Dat(D(20173, 2, 3))}
                      \cup (IF Thorough THEN {Dat(d) : d \in YearDays \cup WeekDays} ELSE {})
    [] ty = "time" -> {Tm(45296, 123456789, -19800), Tm(0, 0, 0), Tm(43200, 0, 3600), Tm(86399, 999999999, 0), Tm(3600, 500000000, 45240),
                       Tm(60, 0, -59)}
                      \cup (IF Thorough THEN {Tm(c[1], c[2], o) : c \in Clock, o \in {0, 3600}} ELSE {})
RT(val, p) == [op |-> "roundtrip", val |-> val, p |-> p]
Hash(p) == Len(p) + (IF Len(p) > 2 THEN (IF p[3] \in {"y", "M", "d", "H", "m"} THEN 1 ELSE 0) ELSE 0)
\* offsets that need the seconds-capable zone widths (XXXX, XXXXX, xxxx, xxxxx): "same instant with the same offset"
SubMinuteVals == {Dt(D(2022, 5, 2), 45296, 5, o) : o \in {30, -59, 1, 3661, -45296}}
ZonePatterns == {<<"y","y","y","y","-","M","M","-","d","d"," ","H","H",":","m","m",":","s","s",".","n","n","n","n","n"," ">> \o zz :
                   zz \in {Rep("X", 4), Rep("X", 5), Rep("x", 4), Rep("x", 5), Rep("X", 3), Rep("x", 2)}}
\* one-letter numeric fields followed by characters that are numeric in the Unicode sense but not digits: a non-digit ends the field
\* (not superscript or Arabic-Indic digits: whether those count as "digits" the property does not say)
LookalikeSeps == {<<"½">>, <<"Ⅳ">>, <<"⅛">>}
LookalikePatterns == {a \o sp \o b : a \in {<<"M">>, <<"d">>, <<"D">>, <<"H">>, <<"k">>, <<"m">>, <<"s">>, <<"h">>, <<"K">>, <<"y">>},
                                      sp \in LookalikeSeps, b \in {<<"y","y","y","y">>, <<"s","s">>, <<>>}}
C12(z) ==
  UNION {{RT(v, p) : v \in C12Values(ty)} : p \in FullPatterns(z) \cup Full12(z) \cup Pairs(z) \cup Singles, ty \in {"dt"}}
  \cup UNION {{RT(v, p) : v \in C12Values(ty)} : p \in Singles \cup Pairs(z), ty \in {"date", "time"}}
  \cup (IF First THEN {RT(v, p) : v \in SubMinuteVals, p \in ZonePatterns}
                      \cup UNION {{RT(v, p) : v \in C12Values(ty) \cup (IF ty = "date" THEN {Dat(D(2023, m, 7)) : m \in 1..12} ELSE {})} :
                                   p \in LookalikePatterns, ty \in {"dt", "date", "time"}}
         ELSE {})

\* ---- C13 ----------------------------------------------------------------------------------
RDates == << <<"0","0","0","1","-","0","1","-","0","1">>, <<"9","9","9","9","-","1","2","-","3","1">>, <<"2","0","2","4","-","0","2","-","2","9">>,
             <<"2","0","2","3","-","0","2","-","2","8">>, <<"2","0","2","2","-","0","4","-","3","0">>, <<"1","9","7","0","-","0","1","-","0","1">> >>
RTimes == << <<"0","0",":","0","0",":","0","0">>, <<"2","3",":","5","9",":","5","9">>, <<"1","2",":","3","4",":","5","6">>,
            <<"2","3",":","0","0",":","0","0">> >>      \* with -01:00 the instant is exactly the next UTC midnight
ROffs == << <<"Z">>, <<"+","0","0",":","0","0">>, <<"-","0","0",":","0","0">>, <<"+","0","0",":","0","1">>, <<"-","0","5",":","3","0">>,
            <<"+","2","3",":","5","9">>, <<"-","2","3",":","5","9">>, <<"-","0","0",":","0","1">>, <<"-","0","0",":","3","0">>, <<"+","1","4",":","0","0">>, <<"-","0","1",":","0","0">> >>
\* digit shapes of a fraction of length n
Frac(n, shape) == CASE shape = 1 -> Rep("0", n) [] shape = 2 -> Rep("9", n) [] shape = 3 -> <<"1">> \o Rep("0", n - 1)
                    [] shape = 4 -> Rep("0", n - 1) \o <<"1">> [] shape = 5 -> [i \in 1..n |-> DigitChars[((i * 7) % 10) + 1]]
\* thorough tier: more dates (month ends, century years), times and offsets
XDates == << <<"2","0","0","0","-","0","2","-","2","9">>, <<"1","9","0","0","-","0","2","-","2","8">>, <<"2","0","2","2","-","1","2","-","3","1">>,
             <<"2","0","2","3","-","0","1","-","0","1">>, <<"0","0","0","1","-","1","2","-","3","1">>, <<"2","0","2","2","-","0","5","-","3","1">> >>
XTimes == << <<"0","0",":","5","9",":","5","9">>, <<"0","1",":","0","0",":","0","0">>, <<"2","2",":","3","0",":","0","0">> >>
XOffs == << <<"+","0","1",":","0","0">>, <<"+","0","1",":","3","0">>, <<"-","1","2",":","0","0">>, <<"+","1","2",":","4","5">>, <<"-","0","9",":","3","0">> >>
GDates == IF Thorough THEN RDates \o XDates ELSE RDates
GTimes == IF Thorough THEN RTimes \o XTimes ELSE RTimes
GOffs == IF Thorough THEN ROffs \o XOffs ELSE ROffs
Good(z) == {GDates[d] \o <<"T">> \o GTimes[t] \o (IF n = 0 THEN <<>> ELSE <<".">> \o Frac(n, sh)) \o GOffs[o] :
           d \in 1..Len(GDates), t \in 1..Len(GTimes), n \in 0..40, sh \in 1..5, o \in 1..Len(GOffs)}
\* single-field mutations of a valid timestamp (position, replacement)
Base == <<"2","0","2","2","-","0","5","-","0","2","T","1","2",":","3","2",":","0","1",".","5","+","0","1",":","0","0">>
Mutations == { <<6, <<"0","0">> >>, <<6, <<"1","3">> >>, <<9, <<"0","0">> >>, <<9, <<"3","2">> >>, <<12, <<"2","4">> >>, <<15, <<"6","0">> >>,
               <<18, <<"6","1">> >>, <<18, <<"6","0">> >>, <<23, <<"2","4">> >>, <<26, <<"6","0">> >>, <<1, <<"0","0">> >>, <<11, <<"t">> >>,
               <<11, <<" ">> >>, <<14, <<"-">> >>, <<5, <<"/">> >>, <<22, <<"Z">> >>, <<20, <<",">> >>, <<25, <<"">> >>, <<21, <<".">> >> }
Replace(s, at, r) == SubSeq(s, 1, at - 1) \o r \o SubSeq(s, at + Len(r), Len(s))
Feb30 == <<"2","0","2","3","-","0","2","-","3","0","T","0","0",":","0","0",":","0","0","Z">>
Apr31 == <<"2","0","2","3","-","0","4","-","3","1","T","0","0",":","0","0",":","0","0","Z">>
Feb29 == <<"2","0","2","3","-","0","2","-","2","9","T","0","0",":","0","0",":","0","0","Z">>
\* numeric offsets outside -23:59..+23:59, with either sign
BadOffs == {<<"-","2","4",":","0","0">>, <<"+","2","4",":","0","0">>, <<"-","2","4",":","0","1">>, <<"-","2","3",":","6","0">>, <<"-","0","0",":","6","0">>, <<"+","9","9",":","0","0">>, <<"-","9","9",":","5","9">>}
C13(z) ==
  {[op |-> "rfc_read", s |-> s] : s \in {g \in Good(z) : InShard(Len(g))}}
  \cup {[op |-> "rfc_read", s |-> SubSeq(Base, 1, 19) \o <<".">> \o [i \in 1..n |-> DigitChars[((i * i * k * 7 + k * 13 + i * 3 + (k \div 10) * i) % 10) + 1]] \o <<"+","0","5",":","3","0">>] :
          n \in 1..12, k \in {x \in 1..400 : InShard(x)}}
  \cup (IF First THEN {[op |-> "rfc_read", s |-> SubSeq(Base, 1, k) \o o] : k \in {19, 21}, o \in BadOffs} ELSE {})
  \* day 31 of every month (and 29/30 February, day 32, month 0/13, day 0): exists or is out of range
  \cup (IF First THEN {[op |-> "rfc_read", s |-> t] : t \in {<<"2","0","2","3","-","0","1","-","3","1","T","1","2",":","0","0",":","0","0","Z">>, <<"2","0","2","3","-","0","2","-","3","1","T","1","2",":","0","0",":","0","0","Z">>, <<"2","0","2","3","-","0","3","-","3","1","T","1","2",":","0","0",":","0","0","Z">>, <<"2","0","2","3","-","0","4","-","3","1","T","1","2",":","0","0",":","0","0","Z">>, <<"2","0","2","3","-","0","5","-","3","1","T","1","2",":","0","0",":","0","0","Z">>, <<"2","0","2","3","-","0","6","-","3","1","T","1","2",":","0","0",":","0","0","Z">>, <<"2","0","2","3","-","0","7","-","3","1","T","1","2",":","0","0",":","0","0","Z">>, <<"2","0","2","3","-","0","8","-","3","1","T","1","2",":","0","0",":","0","0","Z">>, <<"2","0","2","3","-","0","9","-","3","1","T","1","2",":","0","0",":","0","0","Z">>, <<"2","0","2","3","-","1","0","-","3","1","T","1","2",":","0","0",":","0","0","Z">>, <<"2","0","2","3","-","1","1","-","3","1","T","1","2",":","0","0",":","0","0","Z">>, <<"2","0","2","3","-","1","2","-","3","1","T","1","2",":","0","0",":","0","0","Z">>, <<"2","0","2","4","-","0","2","-","3","1","T","1","2",":","0","0",":","0","0","Z">>, <<"2","0","2","4","-","0","4","-","3","1","T","1","2",":","0","0",":","0","0","Z">>, <<"2","0","2","4","-","0","6","-","3","1","T","1","2",":","0","0",":","0","0","Z">>, <<"2","0","2","4","-","0","9","-","3","1","T","1","2",":","0","0",":","0","0","Z">>, <<"2","0","2","4","-","1","1","-","3","1","T","1","2",":","0","0",":","0","0","Z">>, <<"2","0","2","3","-","0","2","-","2","9","T","1","2",":","0","0",":","0","0","Z">>, <<"2","0","2","3","-","0","2","-","3","0","T","1","2",":","0","0",":","0","0","Z">>, <<"2","0","2","4","-","0","2","-","3","0","T","1","2",":","0","0",":","0","0","Z">>, <<"1","9","0","0","-","0","2","-","2","9","T","1","2",":","0","0",":","0","0","Z">>, <<"2","0","0","0","-","0","2","-","3","0","T","1","2",":","0","0",":","0","0","Z">>, <<"2","0","2","3","-","0","6","-","3","2","T","1","2",":","0","0",":","0","0","Z">>, <<"2","0","2","3","-","1","2","-","3","2","T","1","2",":","0","0",":","0","0","Z">>, <<"2","0","2","3","-","0","0","-","1","0","T","1","2",":","0","0",":","0","0","Z">>, <<"2","0","2","3","-","1","3","-","1","0","T","1","2",":","0","0",":","0","0","Z">>, <<"2","0","2","3","-","0","5","-","0","0","T","1","2",":","0","0",":","0","0","Z">>}} ELSE {})
  \cup (IF First THEN {[op |-> "rfc_read", s |-> Replace(Base, m[1], m[2])] : m \in Mutations}
                      \cup {[op |-> "rfc_read", s |-> s] : s \in {Feb30, Apr31, Feb29, Base}} ELSE {})
  \cup {[op |-> "rfc_write", val |-> Dt(d, c[1], c[2], o), prec |-> pr] :
          d \in {x \in {D(1, 1, 1), D(9999, 12, 31), D(2024, 2, 29), D(2023, 2, 28), D(1970, 1, 1), D(2022, 12, 31)} : InShard(x)},
          c \in Clock, o \in {0, 60, -60, 3600, -19800, 86340, -86340}, pr \in {0, 2, 3, 6, 9}}

\* ---- C14: families expanded by the harness --------------------------------------------------
\* dates at the two ends of the supported range read together with a zone that moves the instant out of it
EdgeDates == {<<"5","8","7","9","6","1","1","-","0","7","-","1","2">>, <<"-","5","8","7","9","6","1","1","-","0","6","-","2","3">>, <<"5","8","7","9","6","1","1","-","0","7","-","1","1">>, <<"-","5","8","7","9","6","1","1","-","0","6","-","2","4">>, <<"2","0","2","2","-","0","5","-","0","2">>}
EdgeTimes == {<<"2","3",":","5","9",":","5","9">>, <<"0","0",":","0","0",":","0","0">>, <<"1","2",":","0","0",":","0","0">>}
EdgeZones == {<<"+","0","0",":","0","0">>, <<"-","0","0",":","0","1">>, <<"-","0","1",":","0","0">>, <<"+","0","1",":","0","0">>, <<"+","2","3",":","5","9">>, <<"-","2","3",":","5","9">>}
EdgeZoneCases == {[op |-> "parse_any", ty |-> "dt", s |-> d \o <<" ">> \o t \o <<" ">> \o zz, p |-> <<"y","y","y","y","-","M","M","-","d","d"," ","H","H",":","m","m",":","s","s"," ","x","x","x">>] :
                    d \in EdgeDates, t \in EdgeTimes, zz \in EdgeZones}
\* years at and beyond the two ends of the range with days of year / months / days at and beyond theirs
EdgeYs == {<<"5","8","7","9","6","1","1">>, <<"-","5","8","7","9","6","1","1">>, <<"5","8","7","9","6","1","2">>, <<"-","5","8","7","9","6","1","2">>, <<"0">>, <<"1">>, <<"-","1">>}
EdgeDoys == {<<"0">>, <<"1">>, <<"1","7","3">>, <<"1","7","4">>, <<"1","9","3">>, <<"1","9","4">>, <<"3","6","5">>, <<"3","6","6">>, <<"3","6","7">>, <<"9","9","9">>}
EdgeMs == {<<"0">>, <<"6">>, <<"7">>, <<"1","3">>}
EdgeDs == {<<"0">>, <<"1","2">>, <<"1","3">>, <<"2","2">>, <<"2","3">>, <<"3","2">>}
EdgeDateCases ==
  {[op |-> "parse_any", ty |-> ty, s |-> y \o <<" ">> \o n, p |-> <<"y"," ","D">>] : ty \in {"date", "dt"}, y \in EdgeYs, n \in EdgeDoys}
  \cup {[op |-> "parse_any", ty |-> ty, s |-> y \o <<"-">> \o n, p |-> <<"y","-","D","D","D">>] : ty \in {"date", "dt"}, y \in EdgeYs, n \in EdgeDoys}
  \cup {[op |-> "parse_any", ty |-> ty, s |-> y \o <<" ">> \o m \o <<" ">> \o d, p |-> <<"y"," ","M"," ","d">>] :
          ty \in {"date", "dt"}, y \in EdgeYs, m \in EdgeMs, d \in EdgeDs}
HostileAlphabet == <<"0", "7", "-", "+", "a", "Z", ":", "é", "日">>
C14(z) ==
  {[op |-> "family_symbol", ty |-> ty, sym |-> Symbols[i], w |-> w, alphabet |-> HostileAlphabet, maxlen |-> IF Thorough THEN 5 ELSE 3] :
      ty \in {"dt", "date", "time"}, i \in {x \in 1..Len(Symbols) : InShard(x)}, w \in 1..10}
  \cup {[op |-> "family_patterns", ty |-> ty, alphabet |-> QuoteAlphabet, maxlen |-> IF Thorough THEN 6 ELSE 5,
         inputs |-> << <<>>, <<"2">>, <<"2","0","2","2">>, <<"2","0","2","2","-","0","5","-","0","2">>, <<"a","é">>, <<"é","日","é">>,
                       <<"-","-","-","-","-","-","-","-">>, <<"T">>, <<"'">>, <<"2","0","2","2","T","1","2">>, <<"y","M","Q","H">>, <<"0","0","0","0","0","0","0","0","0","0","0","0">> >>] :
      ty \in (IF First THEN {"dt", "date", "time"} ELSE {})}
  \cup {[op |-> "family_rfc", base |-> b, alphabet |-> <<"0", "9", "-", "+", ":", ".", "T", "Z", "z", "é", " ">>] :
      b \in (IF First THEN {Base, Feb29, <<"2","0","2","2","-","0","5","-","0","2","T","1","2",":","3","2",":","0","1","Z">>,
                            Base \o Rep("9", 30)} ELSE {})}
  \cup {[op |-> "family_cron", base |-> b, alphabet |-> <<"0", "7", "*", "/", ",", "-", "a", "é", " ", "+">>] :
      b \in (IF First THEN {<<"*"," ","*"," ","*"," ","*"," ","*">>, <<"*","/","5"," ","1","-","2"," ","3",","," ","4"," ","j","a","n"," ","m","o","n">>,
                            <<"*","/","0"," ","0","-","0"," ","1",",","*","/","0"," ","*"," ","7">>, <<"5","9"," ","2","3"," ","3","1"," ","1","2"," ","6">>} ELSE {})}
  \cup {[op |-> "family_fromstr", ty |-> ty, alphabet |-> HostileAlphabet, maxlen |-> IF Thorough THEN 5 ELSE 4] :
      ty \in (IF First THEN {"dt", "date", "time"} ELSE {})}
  \* runs far longer than any field width (the pattern may have any length)
  \cup {[op |-> "family_long", ty |-> ty, syms |-> Symbols \o <<"Q", "-", "'">>, lens |-> <<255, 256, 65535, 65536, 70001>>] :
          ty \in (IF First THEN {"dt", "date", "time"} ELSE {})}
  \cup (IF First THEN EdgeZoneCases \cup EdgeDateCases ELSE {})
  \* long tokens of multi-byte characters (1..4 bytes each) where a field value, a name or a step is expected: whatever
  \* is echoed into an error message must survive any truncation
  \cup {[op |-> "family_longtok", chars |-> <<"a", "é", "€", "😀", "9">>, lens |-> <<1, 60, 85, 86, 100, 128, 129, 255, 256, 257, 300>>] :
          x \in (IF First THEN {0} ELSE {})}
  \* field combinations (incl. the same field twice) read from texts whose digits are pushed to 9:
  \* the parsed fields may add up past the end of the day / month / range
  \cup {[op |-> "family_nines", ty |-> ty, p |-> p] : ty \in {"dt", "time", "date"}, p \in Pairs(z)}
  \cup {[op |-> "family_nines", ty |-> ty, p |-> HourF[2] \o <<":">> \o MinF[2] \o <<":">> \o SecF[2] \o <<".">> \o a \o <<".">> \o b \o <<".">> \o c] :
          ty \in (IF First THEN {"dt", "time"} ELSE {}), a \in Elems(SubF), b \in Elems(SubF), c \in Elems(SubF) \cup {<<>>}}

\* ---- C20 ----------------------------------------------------------------------------------
\* malformed text forms ("malformed strings yield a serde error rather than a panic"): every deletion, insertion and
\* substitution of one character of a well-formed text, every truncation, and the substitutions of two (three)
\* characters by one two-byte (three-byte) character, which keep every byte offset plausible
MalAlphabet == <<"0", "9", "-", "+", ":", ".", "T", "Z", " ", "é", "日">>
Malformed(t) ==
  {SubSeq(t, 1, i - 1) \o SubSeq(t, i + 1, Len(t)) : i \in 1..Len(t)}
  \cup {SubSeq(t, 1, i) : i \in 0..Len(t)} \cup {SubSeq(t, i, Len(t)) : i \in 1..Len(t)}
  \cup {SubSeq(t, 1, i - 1) \o <<MalAlphabet[c]>> \o SubSeq(t, i + 1, Len(t)) : i \in 1..Len(t), c \in 1..Len(MalAlphabet)}
  \cup {SubSeq(t, 1, i - 1) \o <<MalAlphabet[c]>> \o SubSeq(t, i, Len(t)) : i \in 1..(Len(t) + 1), c \in 1..Len(MalAlphabet)}
  \cup {SubSeq(t, 1, i - 1) \o <<"é">> \o SubSeq(t, i + 2, Len(t)) : i \in 1..(Len(t) - 1)}
  \cup {SubSeq(t, 1, i - 1) \o <<"日">> \o SubSeq(t, i + 3, Len(t)) : i \in 1..(Len(t) - 2)}
WellFormedText == [dt |-> {Base, <<"2","0","2","2","-","0","5","-","0","2","T","1","5",":","3","0",":","2","0","Z">>, <<"0","0","0","1","-","0","1","-","0","1","T","0","0",":","0","0",":","0","0",".","0","0","0","0","0","0","0","0","1","-","2","3",":","5","9">>},
                   date |-> {<<"2","0","2","2","-","0","5","-","0","2">>, <<"-","0","0","0","1","-","1","2","-","3","1">>}, time |-> {<<"1","2",":","3","2",":","0","1">>, <<"2","3",":","5","9",":","5","9">>}]
C20Malformed == UNION {{[op |-> op, ty |-> ty, s |-> m] : m \in UNION {Malformed(t) : t \in WellFormedText[ty]}, op \in {"fromstr_any", "serde_any"}} :
                         ty \in {"dt", "date", "time"}}
C20(z) ==
  {[op |-> op, val |-> v] : op \in {"display", "fromstr", "serde"}, v \in DateValues \cup TimeValues}
  \cup {[op |-> op, val |-> Dt(d, c[1], c[2], o)] : op \in {"display", "serde"},
          d \in {D(1, 1, 1), D(9999, 12, 31), D(2024, 2, 29), D(1970, 1, 1), D(2022, 12, 31), D(999, 12, 31), D(1000, 1, 1)},
          c \in Clock, o \in {0, 60, -60, 3600, -19800, 86340, -86340}}
  \cup {[op |-> "display", val |-> v] : v \in DtValues}
  \cup (IF First THEN C20Malformed ELSE {})
  \* fractions of 1..12 digits in 40 digit shapes each: read to the nanosecond, cut beyond it
  \cup {[op |-> "rfc_read", s |-> SubSeq(Base, 1, 19) \o <<".">> \o [i \in 1..n |-> DigitChars[((i * i * k * 7 + k * 13 + i * 3 + (k \div 10) * i) % 10) + 1]] \o <<"Z">>] :
          n \in 1..12, k \in {x \in 1..400 : InShard(x)}}

Cases(z) == CASE Which = "C02" -> C02(z) [] Which = "C11" -> C11(z) [] Which = "C12" -> C12(z) [] Which = "C13" -> C13(z) [] Which = "C14" -> C14(z) [] Which = "C20" -> C20(z)

ASSUME LET cs == SetToSeq(Cases(0)) IN ndJsonSerialize(IOEnv.OUT, cs) /\ PrintT(<<"GENERATED", Len(cs)>>)
=============================================================================
