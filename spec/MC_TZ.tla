-------------------------------- MODULE MC_TZ --------------------------------
(***************************************************************************)
(* Specification sanity for C18: the closed forms of module TZif (used to  *)
(* judge every observed lookup) against independent, enumerative           *)
(* definitions - the role the successor machine plays for the calendar.    *)
(*                                                                         *)
(*  RuleDayEnum   a rule day found by enumerating the days of the month /  *)
(*                year and counting, instead of weekday arithmetic         *)
(*  OffsetBySwitches  POSIX TZ semantics stated directly: the offset in    *)
(*                force is the one the latest switch-over at or before the *)
(*                instant switched to (switch-overs of the previous, the   *)
(*                same and the next year, sorted) - instead of the         *)
(*                interval test of RuleOffset                              *)
(*  LastLELinear  the latest transition at or before an instant by linear  *)
(*                scan - instead of bisection                              *)
(***************************************************************************)
EXTENDS TZif, TLC, FiniteSets, Sequences

Alt(std, dst, sday, stime, eday, etime) ==
  [kind |-> "alt", std |-> std, dst |-> dst, s |-> [day |-> sday, time |-> stime], e |-> [day |-> eday, time |-> etime]]

SetMin(S) == CHOOSE x \in S : \A y \in S : x <= y
SetMax(S) == CHOOSE x \in S : \A y \in S : x >= y
NthSmallest(S, n) == CHOOSE x \in S : Cardinality({z \in S : z < x}) = n - 1
DaysOfMonth(y, m) == Ymd2Dn(y, m, 1)..(Ymd2Dn(y, m, 1) + MonthLen(y, m) - 1)
DaysOfYear(y) == YearStart(y)..(YearStart(y) + YearLen(y) - 1)

RuleDayEnum(day, y) ==
  CASE day[1] = "M" -> LET S == {dn \in DaysOfMonth(y, day[2]) : Weekday(dn) = day[4]}
                       IN IF Cardinality(S) >= day[3] THEN NthSmallest(S, day[3]) ELSE SetMax(S)
    [] day[1] = "J" -> NthSmallest({dn \in DaysOfYear(y) : ~(Dn2Ymd(dn)[2] = 2 /\ Dn2Ymd(dn)[3] = 29)}, day[2])
    [] day[1] = "Z" -> NthSmallest(DaysOfYear(y), day[2] + 1)

\* switch-overs of year y: <<instant, offset switched to>>
SwitchesOf(f, y) == {<<TNorm(RuleDayEnum(f.s.day, y), f.s.time - f.std), f.dst>>,
                     <<TNorm(RuleDayEnum(f.e.day, y), f.e.time - f.dst), f.std>>}
OffsetBySwitches(f, ts) ==
  LET y == YearOf(ts[1])
      all == SwitchesOf(f, PrevYear(y)) \cup SwitchesOf(f, y) \cup SwitchesOf(f, NextYear(y))
      past == {sw \in all : TLe(sw[1], ts)}
      latest == CHOOSE sw \in past : \A o \in past : TLe(o[1], sw[1])
  IN latest[2]

\* ---- the rules ------------------------------------------------------------------------
MDays == {<<"M", m, w, d>> : m \in {2, 3, 4, 9, 10, 11}, w \in 1..5, d \in 0..6}
JDays == {<<"J", n>> : n \in {1, 58, 59, 60, 61, 90, 274, 300, 305, 334, 365}} \cup {<<"Z", n>> : n \in {0, 57, 58, 59, 60, 89, 273, 300, 304, 334, 364}}
Years == {1999, 2000, 2023, 2024, 2032, 2100}

ASSUME \A day \in MDays \cup JDays, y \in Years : RuleDay(day, y) = RuleDayEnum(day, y)
\* `n` = 365 exists in leap years only
ASSUME \A y \in {2000, 2024, 2032} : RuleDay(<<"Z", 365>>, y) = RuleDayEnum(<<"Z", 365>>, y)

Rules == {Alt(3600, 7200, <<"M", 3, 5, 0>>, 7200, <<"M", 10, 5, 0>>, 10800),
          Alt(-18000, -14400, <<"M", 3, 2, 0>>, 7200, <<"M", 11, 1, 0>>, 7200),
          Alt(36000, 39600, <<"M", 10, 1, 0>>, 7200, <<"M", 4, 1, 0>>, 10800),
          Alt(43200, 46800, <<"M", 9, 5, 0>>, 7200, <<"M", 4, 1, 0>>, 10800),
          Alt(7200, 10800, <<"J", 60>>, 0, <<"J", 300>>, 3600),
          Alt(-10800, -7200, <<"Z", 59>>, 7200, <<"Z", 300>>, 7200),
          Alt(-10800, -7200, <<"M", 3, 5, 0>>, -7200, <<"M", 10, 5, 0>>, -3600),
          Alt(7200, 10800, <<"M", 3, 4, 4>>, 93600, <<"M", 10, 5, 0>>, 7200),
          Alt(-16200, -9000, <<"M", 10, 3, 6>>, 86340, <<"M", 2, 3, 6>>, 86340),
          Alt(-10800, -7200, <<"M", 10, 3, 0>>, 0, <<"M", 2, 5, 0>>, 0),
          Alt(7200, 10800, <<"M", 2, 5, 4>>, 10800, <<"M", 10, 5, 0>>, 14400),
          Alt(0, 3600, <<"M", 3, 5, 0>>, 3600, <<"M", 10, 5, 0>>, 7200)}
Around(t) == {TNorm(t[1], t[2] - 1), t, TNorm(t[1], t[2] + 1)}
Probes(f, y) == Around(SwitchAt(f.s, y, f.std)) \cup Around(SwitchAt(f.e, y, f.dst))
                \cup {<<YearStart(y), 0>>, <<YearStart(y) + 45, 43200>>, <<YearStart(y) + 200, 1>>, <<YearStart(y) + YearLen(y) - 1, 86399>>}

ASSUME \A f \in Rules, y \in Years : IanaShaped(f, y)
ASSUME \A f \in Rules, y \in Years : \A ts \in Probes(f, y) : RuleOffset(f, ts) = OffsetBySwitches(f, ts)

\* ---- the transition table ----------------------------------------------------------------
RECURSIVE LinearLE(_, _, _)
LinearLE(trans, ts, i) == IF i = 0 THEN 0 ELSE IF TLe(trans[i].t, ts) THEN i ELSE LinearLE(trans, ts, i - 1)
Tab(n) == [i \in 1..n |-> [t |-> <<100 * i, (7 * i) % 86400>>, idx |-> i % 3]]
ASSUME \A n \in 1..9 : \A d \in 100..(100 * n + 50) : \A s \in {0, (7 * (d \div 100)) % 86400, 86399} :
         LET ts == <<d, s>> IN TLe(Tab(n)[1].t, ts) => LastLE(Tab(n), ts, 1, n) = LinearLE(Tab(n), ts, n)

ASSUME PrintT(<<"MC_TZ", Cardinality(MDays \cup JDays) * Cardinality(Years), "rule days",
                Cardinality(Rules) * Cardinality(Years) * 10, "rule probes">>)
=============================================================================
