------------------------------ MODULE Astrolabe ------------------------------
(***************************************************************************)
(* astrolabe as a state machine.                                           *)
(*                                                                         *)
(* State: a small register file of values - one DateTime `x` and one Time  *)
(* `t` (second operands of binary calls are drawn inside the action) -     *)
(* plus `last`, a record of the last call (name, arguments, operand        *)
(* values, outcome).  Every public                                         *)
(* call is one action; a session (any sequence of calls) is a behaviour.   *)
(* Calls that return a value overwrite their register when the outcome is  *)
(* "ok" and change nothing otherwise (value semantics).  The meaning of    *)
(* each call is Ops!Allowed - the same operator the trace validators and   *)
(* case generators use.                                                    *)
(*                                                                         *)
(* The listed properties appear as state invariants over (last, x, y, t):  *)
(* C03 order = sign of every difference; C04 exact shift or panic; C06     *)
(* truncation, antisymmetry, inverse of add; C08 canonical time, mod-day   *)
(* arithmetic; C09 frame conditions of setters/clears; C10 offsets are     *)
(* views.  MC_TimeLine checks them exhaustively on a structure-preserving  *)
(* small instance of the radix vector.                                     *)
(***************************************************************************)
EXTENDS Ops, TLC

CONSTANTS Offsets,        \* offsets (seconds) explored
          Counts,         \* counts explored (native naturals)
          DayLo, DayHi,   \* initial day numbers explored
          SubSecs,        \* nanosecond values explored initially
          OperandSubSecs, OperandOffsets   \* second operands of binary calls

VARIABLES x, t, last
vars == <<x, t, last>>

DtValues == {DtV(Inst(d, s, n), o) : d \in DayLo..DayHi, s \in 0..(SPD - 1), n \in SubSecs, o \in {0}}
TimeValues == {TimeV([sod |-> s, ns |-> n], 0) : s \in 0..(SPD - 1), n \in SubSecs}

NoCall == [e |-> [op |-> "none"]]
Init == /\ x \in DtValues /\ t \in TimeValues /\ last = NoCall

\* one outcome of a call with event record e on operands (a, b)
Call(e, a, b) == {[e |-> e, a |-> a, b |-> b, out |-> o] : o \in Allowed(e, a, b)}

DtUnits == Units
TimeUnits == Units \ {"day"}
W(n) == FromInt(n)

(***************************************************************************)
(* Invariants                                                              *)
(***************************************************************************)
TypeOKP(L, X, T) == /\ IsInst(InstOf(X)) /\ ValidOffset(X.off)
          /\ T.sod \in 0..(SPD - 1) /\ T.ns \in 0..(NPS - 1) /\ ValidOffset(T.off)

CalledP(L, ops) == L.e.op \in ops
OkP(L) == L.out.k = "ok"

\* C04: the instant moved by exactly n units, the offset is unchanged; a panic leaves the value alone
C04_ExactShiftP(L, X, T) ==
  CalledP(L, {"dt_add", "dt_sub"}) =>
     IF OkP(L) THEN /\ Since(L.e.u, InstOf(X), InstOf(L.a)) = (IF L.e.op = "dt_add" THEN L.e.n ELSE Neg(L.e.n))
                /\ Diff(InstOf(X), InstOf(L.a)) = (IF L.e.op = "dt_add" THEN Amount(L.e.n, L.e.u)
                                                      ELSE Neg(Amount(L.e.n, L.e.u)))
                /\ X.off = L.a.off
     ELSE X = L.a
C04_PanicIffOutOfRangeP(L, X, T) ==
  CalledP(L, {"dt_add", "dt_sub"}) =>
     (L.out.k = "panic") =
        ~DayInRange(Split(IF L.e.op = "dt_add" THEN Add(ToWide(InstOf(L.a)), Amount(L.e.n, L.e.u))
                          ELSE Sub(ToWide(InstOf(L.a)), Amount(L.e.n, L.e.u))).dnw)

\* C03 / C06: order is the sign of every difference; truncation toward zero; antisymmetry
C06_SinceP(L, X, T) ==
  CalledP(L, {"dt_since"}) =>
     LET d == L.out.v
         back == Since(L.e.u, InstOf(L.b), InstOf(L.a))
         exact == Diff(InstOf(L.a), InstOf(L.b))
         whole == MulSeq(d, UnitRadices(L.e.u), 1)
     IN /\ back = Neg(d)                                               \* antisymmetric
        /\ Sign(d) \in {0, CmpInst(InstOf(L.a), InstOf(L.b))}    \* C03: agrees with order
        /\ Cmp(Abs(whole), Abs(exact)) <= 0                            \* truncated toward zero ...
        /\ Cmp(Abs(Sub(exact, whole)), Amount(W(1), L.e.u)) < 0     \* ... by less than one unit
C03_OrderP(L, X, T) ==
  CalledP(L, {"dt_cmp"}) =>
     /\ L.out.cmp = Sign(Sub(ToWide(InstOf(L.a)), ToWide(InstOf(L.b))))
     /\ L.out.eq = (InstOf(L.a) = InstOf(L.b))                \* offsets play no role
C06_AbsDiffP(L, X, T) ==
  CalledP(L, {"dt_dur_between"}) =>
     DurationNs(L.out.secs, L.out.ns) = Abs(Diff(InstOf(L.a), InstOf(L.b)))

\* C10: set_offset never moves the instant; as_offset keeps the stored fields as the local reading
C10_ViewOnlyP(L, X, T) ==
  CalledP(L, {"dt_set_offset"}) /\ OkP(L) => InstOf(X) = InstOf(L.a) /\ X.off = L.e.o
C10_AsOffsetP(L, X, T) ==
  CalledP(L, {"dt_as_offset"}) /\ OkP(L) =>
     LET l == LocalOf(InstOf(X), X.off) IN
     /\ l.ok /\ Inst(l.dn, l.sod, l.ns) = InstOf(L.a) /\ X.off = L.e.o
     /\ Diff(InstOf(X), InstOf(L.a)) = Neg(MulSeq(W(L.e.o), <<R[4], R[5], R[6]>>, 1))

\* C09: a clock-field setter changes that field only (local reading); refused iff the value is out of range
\* or the result is not a representable instant
LocalFields(v) == LET l == LocalOf(InstOf(v), v.off)
                  IN [dn |-> l.dn, hour |-> Hour(l.sod), minute |-> Minute(l.sod), second |-> Second(l.sod),
                      milli |-> Milli(l.ns), micro |-> Micro(l.ns), nano |-> l.ns]
FieldOf(lf, f) == CASE f = "hour" -> lf.hour [] f = "minute" -> lf.minute [] f = "second" -> lf.second
                    [] f = "milli" -> lf.milli [] f = "micro" -> lf.micro [] f = "nano" -> lf.nano
\* the part of the sub-second value a setter of f must keep
FinerRemainder(lf, f) == CASE f = "milli" -> lf.nano % NPM [] f = "micro" -> lf.nano % NPU [] OTHER -> 0
C09_SetFrameP(L, X, T) ==
  CalledP(L, {"dt_set"}) /\ L.e.f \in ClockFields =>
     \* a receiver whose own local reading is outside the range (reachable: AddSub keeps the offset and only
     \* requires the instant to be representable) has no local field to replace: refused
     IF ~LocalOf(InstOf(L.a), L.a.off).ok THEN L.out = ErrOOR /\ X = L.a ELSE
     LET v == ToInt(L.e.v)  f == L.e.f  before == LocalFields(L.a)  after == LocalFields(X) IN
     IF v > ClockMax(f) THEN L.out = ErrOOR /\ X = L.a
     \* at the two ends of the range the edited local reading may denote an instant outside it: refused as well
     ELSE IF LET l == LocalOf(InstOf(L.a), L.a.off)  c == SetClock(l.sod, l.ns, f, v)
             IN ~UtcOf([dn |-> l.dn, sod |-> c[1], ns |-> c[2]], L.a.off).ok
          THEN L.out = ErrOOR /\ X = L.a
     ELSE /\ OkP(L) /\ FieldOf(after, f) = v /\ after.dn = before.dn /\ X.off = L.a.off
          /\ \A g \in {"hour", "minute", "second"} \ {f} : FieldOf(after, g) = FieldOf(before, g)
          /\ (f \in {"hour", "minute", "second"} => after.nano = before.nano)
          /\ (f \in {"milli", "micro"} => FinerRemainder(after, f) = FinerRemainder(before, f))
          /\ (f = "micro" => TRUE) /\ (f = "milli" => after.nano \div NPM = v)
C09_ClearFrameP(L, X, T) ==
  CalledP(L, {"dt_clear"}) /\ OkP(L) /\ L.e.f \in ClockFields =>
     LET f == L.e.f  before == LocalFields(L.a)  after == LocalFields(X) IN
     /\ after.dn = before.dn /\ X.off = L.a.off
     /\ (f = "hour" => after.hour = 0 /\ after.minute = 0 /\ after.second = 0 /\ after.nano = 0)
     /\ (f = "minute" => after.hour = before.hour /\ after.minute = 0 /\ after.second = 0 /\ after.nano = 0)
     /\ (f = "second" => after.hour = before.hour /\ after.minute = before.minute /\ after.second = 0 /\ after.nano = 0)
     /\ (f = "milli" => after.second = before.second /\ after.minute = before.minute /\ after.nano = 0)
     /\ (f = "micro" => after.second = before.second /\ after.milli = before.milli /\ after.nano % NPM = 0)
     /\ (f = "nano" => after.micro = before.micro /\ after.nano % NPU = 0)

\* C08: time arithmetic is modulo one day and keeps the offset
C08_Mod24P(L, X, T) ==
  CalledP(L, {"time_add", "time_sub"}) =>
     /\ OkP(L) /\ T.off = L.a.off
     /\ LET moved == IF L.e.op = "time_add" THEN Add(TodWide(TodOf(L.a)), Amount(L.e.n, L.e.u))
                     ELSE Sub(TodWide(TodOf(L.a)), Amount(L.e.n, L.e.u))
            d == Split(Sub(moved, TodWide(TodOf(T))))
        IN d.sod = 0 /\ d.ns = 0                          \* differs from the exact result by whole days
C08_FromDateTimeP(L, X, T) ==
  CalledP(L, {"time_from_dt"}) => T.sod = L.a.sod /\ T.ns = L.a.ns /\ T.off = L.a.off


AllDtP(L, X, T) == /\ TypeOKP(L, X, T) /\ C04_ExactShiftP(L, X, T) /\ C04_PanicIffOutOfRangeP(L, X, T)
                   /\ C06_SinceP(L, X, T) /\ C03_OrderP(L, X, T) /\ C06_AbsDiffP(L, X, T)
                   /\ C10_ViewOnlyP(L, X, T) /\ C10_AsOffsetP(L, X, T)
                   /\ C09_SetFrameP(L, X, T) /\ C09_ClearFrameP(L, X, T)
AllTimeP(L, X, T) == TypeOKP(L, X, T) /\ C08_Mod24P(L, X, T) /\ C08_FromDateTimeP(L, X, T)

\* --- actions on x ----------------------------------------------------------
DtResult(c) == IF c.out.k = "ok" THEN ValueOfOutcome("dt", c.out) ELSE x

AddSub == \E op \in {"dt_add", "dt_sub"}, u \in DtUnits, n \in Counts :
            \E c \in Call([op |-> op, u |-> u, n |-> W(n)], x, x) :
               /\ c.out.k # "any" /\ x' = DtResult(c) /\ last' = c /\ UNCHANGED t
                  /\ Assert(AllDtP(c, DtResult(c), t), <<"step property violated by", c>>)

AddSubTime == \E op \in {"dt_add_time", "dt_sub_time"} :
                \E c \in Call([op |-> op], x, t) :
                   /\ c.out.k # "any" /\ x' = DtResult(c) /\ last' = c /\ UNCHANGED t
                  /\ Assert(AllDtP(c, DtResult(c), t), <<"step property violated by", c>>)

SetOffset == \E op \in {"dt_set_offset", "dt_as_offset"}, o \in Offsets :
               \E c \in Call([op |-> op, o |-> o], x, x) :
                  /\ c.out.k # "any" /\ x' = DtResult(c) /\ last' = c /\ UNCHANGED t
                  /\ Assert(AllDtP(c, DtResult(c), t), <<"step property violated by", c>>)

SetClockField == \E f \in ClockFields : \E v \in 0..(ClockMax(f) + 1) :
                   \E c \in Call([op |-> "dt_set", f |-> f, v |-> W(v)], x, x) :
                      /\ c.out.k # "any" /\ x' = DtResult(c) /\ last' = c /\ UNCHANGED t
                  /\ Assert(AllDtP(c, DtResult(c), t), <<"step property violated by", c>>)

SetDateField == \E f \in {"month", "day"}, v \in {0, 1, 2, 12, 13, 28, 29, 30, 31, 32} :
                  \E c \in Call([op |-> "dt_set", f |-> f, v |-> W(v)], x, x) :
                     /\ c.out.k # "any" /\ x' = DtResult(c) /\ last' = c /\ UNCHANGED t
                  /\ Assert(AllDtP(c, DtResult(c), t), <<"step property violated by", c>>)

Clear == \E f \in ClockFields \cup {"day", "month"} :
           \E c \in Call([op |-> "dt_clear", f |-> f], x, x) :
              /\ c.out.k # "any" /\ x' = DtResult(c) /\ last' = c /\ UNCHANGED t
                  /\ Assert(AllDtP(c, DtResult(c), t), <<"step property violated by", c>>)

\* --- queries on (x, y) -------------------------------------------------------
Operands == {DtV(Inst(d, s, n), o) : d \in DayLo..DayHi, s \in 0..(SPD - 1), n \in OperandSubSecs, o \in OperandOffsets}
Query == \E e \in {[op |-> "dt_cmp"], [op |-> "dt_dur_between"]} \cup {[op |-> "dt_since", u |-> u] : u \in DtUnits},
            y \in Operands :
           \E c \in Call(e, x, y) : /\ last' = c /\ UNCHANGED <<x, t>>
                                    /\ Assert(AllDtP(c, x, t), <<"step property violated by", c>>)

\* --- actions on t ----------------------------------------------------------
TimeResult(c) == IF c.out.k = "ok" THEN ValueOfOutcome("time", c.out) ELSE t

TimeAddSub == \E op \in {"time_add", "time_sub"}, u \in TimeUnits, n \in Counts :
                \E c \in Call([op |-> op, u |-> u, n |-> W(n)], t, t) :
                   /\ t' = TimeResult(c) /\ last' = c /\ UNCHANGED x
                   /\ Assert(AllTimeP(c, x, TimeResult(c)), <<"step property violated by", c>>)

TimeOffset == \E op \in {"time_set_offset", "time_as_offset"}, o \in Offsets :
                \E c \in Call([op |-> op, o |-> o], t, t) :
                   /\ t' = TimeResult(c) /\ last' = c /\ UNCHANGED x
                   /\ Assert(AllTimeP(c, x, TimeResult(c)), <<"step property violated by", c>>)

TimeSetClear == \/ \E f \in ClockFields : \E v \in 0..(ClockMax(f) + 1) :
                     \E c \in Call([op |-> "time_set", f |-> f, v |-> W(v)], t, t) :
                        /\ t' = TimeResult(c) /\ last' = c /\ UNCHANGED x
                   /\ Assert(AllTimeP(c, x, TimeResult(c)), <<"step property violated by", c>>)
                \/ \E f \in ClockFields :
                     \E c \in Call([op |-> "time_clear", f |-> f], t, t) :
                        /\ t' = TimeResult(c) /\ last' = c /\ UNCHANGED x
                   /\ Assert(AllTimeP(c, x, TimeResult(c)), <<"step property violated by", c>>)

TimeFromDt == \E c \in Call([op |-> "time_from_dt"], x, x) :
                /\ t' = TimeResult(c) /\ last' = c /\ UNCHANGED x
                   /\ Assert(AllTimeP(c, x, TimeResult(c)), <<"step property violated by", c>>)

\* two sub-machines keep the exhaustive models small: the DateTime register with a fixed Time
\* operand, and the Time register with a fixed DateTime
\* (SetDateField and the day/month clears need the real day range: they are exercised by the
\* generators and validators on the real instance, not in the small exhaustive model)
ClearClockField == \E f \in ClockFields :
           \E c \in Call([op |-> "dt_clear", f |-> f], x, x) :
              /\ c.out.k # "any" /\ x' = DtResult(c) /\ last' = c /\ UNCHANGED t
                  /\ Assert(AllDtP(c, DtResult(c), t), <<"step property violated by", c>>)
NextDt == AddSub \/ AddSubTime \/ SetOffset \/ SetClockField \/ ClearClockField \/ Query
NextTime == TimeAddSub \/ TimeOffset \/ TimeSetClear \/ TimeFromDt
Next == NextDt \/ NextTime

Spec == Init /\ [][Next]_vars
SpecDt == Init /\ [][NextDt]_vars
SpecTime == Init /\ [][NextTime]_vars

\* the same predicates on the current state
TypeOK == TypeOKP(last, x, t)
C04_ExactShift == C04_ExactShiftP(last, x, t)
C04_PanicIffOutOfRange == C04_PanicIffOutOfRangeP(last, x, t)
C06_Since == C06_SinceP(last, x, t)
C03_Order == C03_OrderP(last, x, t)
C06_AbsDiff == C06_AbsDiffP(last, x, t)
C10_ViewOnly == C10_ViewOnlyP(last, x, t)
C10_AsOffset == C10_AsOffsetP(last, x, t)
C09_SetFrame == C09_SetFrameP(last, x, t)
C09_ClearFrame == C09_ClearFrameP(last, x, t)
C08_Mod24 == C08_Mod24P(last, x, t)
C08_FromDateTime == C08_FromDateTimeP(last, x, t)

(***************************************************************************)
(* The invariants above speak about the call recorded in `last`.  Keeping  *)
(* `last` in the fingerprint would square the state space, so the models   *)
(* hide it (VIEW View) and check the same predicates on every TRANSITION:   *)
(* each step asserts them on its successor state.                          *)
(***************************************************************************)
View == <<x, t>>
=============================================================================
