SPECIFICATION Spec
CONSTANT MaxCalls = 5
CHECK_DEADLOCK FALSE
