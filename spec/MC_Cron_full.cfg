SPECIFICATION Spec
CONSTANT MaxCalls = 4
CHECK_DEADLOCK FALSE
