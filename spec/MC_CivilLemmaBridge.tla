------------------------ MODULE MC_CivilLemmaBridge ------------------------
(***************************************************************************)
(* Civil_lemmas restates the closed forms of Civil for Apalache.  TLC ties *)
(* the two texts together: they agree on 15 000 days either side of        *)
(* 0001-01-01, on 400 days at each end of the 32-bit range and on every    *)
(* 997 000th day in between.                                               *)
(***************************************************************************)
EXTENDS Civil, TLC, FiniteSets
L == INSTANCE Civil_lemmas

A1 == -15000..15000
A2 == MinDn..(MinDn + 400)
A3 == (MaxDn - 400)..MaxDn
A4 == {d * 997 * 1000 : d \in -2150..2150}
Same(d) == LET a == Dn2Ymd(d) IN
           /\ L!YearOf(d) = a[1] /\ L!Doy(d) = Doy(d)
           /\ L!MonthFromDoy(L!IsLeap(a[1]), Doy(d)) = a[2]
           /\ L!MonthLen(a[1], a[2]) = MonthLen(a[1], a[2])
           /\ (d > MinDn + 146097 /\ d < MaxDn - 146097 => L!Ymd2Dn(a[1], a[2], a[3]) = Ymd2Dn(a[1], a[2], a[3]))
\* (one quantifier per set: TLC refused to build the union of far-apart intervals)
ASSUME \A d \in A1 : Same(d)
ASSUME \A d \in A2 : Same(d)
ASSUME \A d \in A3 : Same(d)
ASSUME \A d \in A4 : Same(d)
ASSUME PrintT(<<"BRIDGE", Cardinality(A1) + Cardinality(A2) + Cardinality(A3) + Cardinality(A4)>>)
=============================================================================
