---------------------------- MODULE Civil_lemmas ----------------------------
(***************************************************************************)
(* The closed forms of Civil restated without CHOOSE and sequences, in the *)
(* fragment Apalache's SMT encoding handles quickly (the full-range lemma  *)
(* on the original text of Civil did not finish in 15 minutes; on this     *)
(* restatement it takes about two).  MC_CivilLemmaBridge ties the two      *)
(* texts together with TLC; Civil_lemmas_apa states the lemma.             *)
(***************************************************************************)
EXTENDS Integers

Astro(y) == IF y < 0 THEN y + 1 ELSE y
Label(a) == IF a <= 0 THEN a - 1 ELSE a
IsLeap(y) == LET a == Astro(y) IN a % 4 = 0 /\ (a % 100 # 0 \/ a % 400 = 0)
MonthLen(y, m) == IF m \in {1, 3, 5, 7, 8, 10, 12} THEN 31 ELSE IF m \in {4, 6, 9, 11} THEN 30 ELSE IF IsLeap(y) THEN 29 ELSE 28
\* @type: (Bool, Int) => Int;
Cum(leap, m) == LET c == IF m = 1 THEN 0 ELSE IF m = 2 THEN 31 ELSE IF m = 3 THEN 59 ELSE IF m = 4 THEN 90 ELSE IF m = 5 THEN 120
                         ELSE IF m = 6 THEN 151 ELSE IF m = 7 THEN 181 ELSE IF m = 8 THEN 212 ELSE IF m = 9 THEN 243
                         ELSE IF m = 10 THEN 273 ELSE IF m = 11 THEN 304 ELSE 334
                IN IF leap /\ m > 2 THEN c + 1 ELSE c
EraOf(d) == d \div 146097
DoE(d) == d % 146097
CoE(doe) == IF doe = 146096 THEN 3 ELSE doe \div 36524
DoC(doe) == doe - 36524 * CoE(doe)
QoC(doc) == IF doc \div 1461 = 25 THEN 24 ELSE doc \div 1461
DoQ(doc) == doc - 1461 * QoC(doc)
YoQ(doq) == IF doq = 1460 THEN 3 ELSE doq \div 365
YoE(doe) == 100 * CoE(doe) + 4 * QoC(DoC(doe)) + YoQ(DoQ(DoC(doe)))
YearOf(d) == Label(400 * EraOf(d) + YoE(DoE(d)) + 1)
Doy(d) == LET q == DoQ(DoC(DoE(d))) IN q - 365 * YoQ(q) + 1
\* @type: (Bool, Int) => Int;
MonthFromDoy(leap, doy) ==
  IF doy <= Cum(leap, 2) THEN 1 ELSE IF doy <= Cum(leap, 3) THEN 2 ELSE IF doy <= Cum(leap, 4) THEN 3
  ELSE IF doy <= Cum(leap, 5) THEN 4 ELSE IF doy <= Cum(leap, 6) THEN 5 ELSE IF doy <= Cum(leap, 7) THEN 6
  ELSE IF doy <= Cum(leap, 8) THEN 7 ELSE IF doy <= Cum(leap, 9) THEN 8 ELSE IF doy <= Cum(leap, 10) THEN 9
  ELSE IF doy <= Cum(leap, 11) THEN 10 ELSE IF doy <= Cum(leap, 12) THEN 11 ELSE 12
\* (mathematical integers: no 32-bit care needed for the SMT solver)
Ymd2Dn(y, m, d) ==
  LET p == Astro(y) - 1
      e == p \div 400
      yoe == p % 400
  IN 146097 * e + 365 * yoe + (yoe \div 4) - (yoe \div 100) + Cum(IsLeap(y), m) + d - 1

RoundTripAt(dn) ==
  LET y == YearOf(dn)
      doy == Doy(dn)
      m == MonthFromDoy(IsLeap(y), doy)
      d == doy - Cum(IsLeap(y), m)
  IN /\ y # 0 /\ m >= 1 /\ m <= 12 /\ d >= 1 /\ d <= MonthLen(y, m)
     /\ y >= -5879611 /\ y <= 5879611
     /\ Ymd2Dn(y, m, d) = dn
=============================================================================
