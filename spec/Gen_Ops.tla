------------------------------- MODULE Gen_Ops -------------------------------
(***************************************************************************)
(* Conformance channel A: TLC enumerates boundary-dense grids of calls on  *)
(* the REAL instance (radices 24,60,60,1000,1000,1000; 32-bit day range)   *)
(* together with the outcomes Ops!Allowed permits; `harness replay`        *)
(* executes every case on the real code.  One family per property,         *)
(* selected by IOEnv.WHICH; IOEnv.TIER = "thorough" widens the grids.      *)
(***************************************************************************)
EXTENDS Ops, TLC, Json, IOUtils, FiniteSets, SequencesExt

RealR == <<24, 60, 60, 1000, 1000, 1000>>
RealLo == MinDn
RealHi == MaxDn

Which == IOEnv.WHICH
\* generation is sharded over parallel TLC processes: each handles the loop values k with k % NShards = Shard
Shard == atoi(IOEnv.SHARD)
NShards == atoi(IOEnv.NSHARDS)
InShard(k) == k % NShards = Shard
First == Shard = 0
Thorough == IOEnv.TIER = "thorough"

W(n) == FromInt(n)
U32Max == FromDigits(<<4, 2, 9, 4, 9, 6, 7, 2, 9, 5>>)
TwoTo31 == FromDigits(<<2, 1, 4, 7, 4, 8, 3, 6, 4, 8>>)

Dt(dn, sod, ns, off) == DtV(Inst(dn, sod, ns), off)
Tm(sod, ns, off) == TimeV([sod |-> sod, ns |-> ns], off)

KeyDays == {MinDn, MinDn + 1, -366, -1, 0, 1, 59, UnixEpochDn - 1, UnixEpochDn, Ymd2Dn(2000, 2, 29), Ymd2Dn(2022, 5, 2),
            Ymd2Dn(-5, 2, 29), MaxDn - 1, MaxDn}
KeyTods == {<<0, 0>>, <<0, 1>>, <<43199, 999999999>>, <<43200, 0>>, <<86399, 0>>, <<86399, 999999999>>, <<45296, 123456789>>}
KeyOffs == {0, 1, -1, 3600, -3600, 19800, -12600, 86399, -86399}
KeyCounts == {W(0), W(1), W(2), W(24), W(60), W(1000), W(86400), W(6000000), W(2147483647), TwoTo31, U32Max}

\* counts whose product with the unit is the last below / first at or above 2^32 seconds, 2^63 and 2^64 nanoseconds:
\* where an implementation that narrows an intermediate to 32 or 64 bits starts to wrap
WrapCounts(u) == CASE u = "day" -> {W(49710), W(49711), W(106751), W(106752), W(213503), W(213504)}
                   [] u = "hour" -> {W(1193046), W(1193047), W(2562047), W(2562048), W(5124095), W(5124096), W(5124119), W(5124120)}
                   [] u = "minute" -> {W(71582788), W(71582789), W(153722867), W(153722868), W(307445734), W(307445735), W(307447174)}
                   [] OTHER -> {}

Case(e, a, b) == [x \in DOMAIN e \cup {"a", "b", "exp"} |->
                    IF x = "a" THEN a ELSE IF x = "b" THEN b ELSE IF x = "exp" THEN SetToSeq(Allowed(e, a, b)) ELSE e[x]]

MaxInst == Inst(MaxDn, 86399, 999999999)
MinInst == Inst(MinDn, 0, 0)

\* counts that land exactly on / one past the end of the range
EdgeCounts(i, u, sign) ==
  LET n == IF sign > 0 THEN Since(u, MaxInst, i) ELSE Since(u, i, MinInst)
  IN IF Cmp(n, U32Max) < 0 THEN {n, Add(n, W(1))} ELSE IF n = U32Max THEN {n} ELSE {}

(***************************************************************************)
C04(z) ==
  LET dts == {Dt(d, t[1], t[2], 0) : d \in KeyDays, t \in KeyTods} \cup {Dt(0, 0, 0, 3600), Dt(-1, 86399, 999999999, -3600)}
             \* values carrying an offset on the last / first days: the instant of the result may be representable while
             \* its local reading is not (and the last two receivers are such values themselves)
             \cup {Dt(MaxDn - 1, 82800, 0, 7200), Dt(MaxDn, 3600, 5, 7200), Dt(MinDn + 1, 3600, 0, -7200), Dt(MinDn, 82800, 5, -7200),
                   Dt(MaxDn, 82800, 0, 7200), Dt(MinDn, 3600, 0, -7200)}
  IN UNION {
      {Case([op |-> op, u |-> u, n |-> n], a, a) :
          n \in KeyCounts \cup WrapCounts(u) \cup EdgeCounts(InstOf(a), u, IF op = "dt_add" THEN 1 ELSE -1)} :
        a \in dts, u \in Units, op \in {"dt_add", "dt_sub"}}
     \cup UNION {
      {Case([op |-> op, n |-> n], DateV(d), DateV(d)) :
          n \in KeyCounts \cup EdgeCounts(Inst(d, 0, 0), "day", IF op = "date_add" THEN 1 ELSE -1)} :
        d \in KeyDays, op \in {"date_add", "date_sub"}}
     \cup {Case([op |-> op, secs |-> s, ns |-> n], a, a) :
             a \in {Dt(d, 43200, 5, 0) : d \in KeyDays} \cup {Dt(0, 0, 0, 0), Dt(0, 0, 1, 0), Dt(-1, 86399, 999999999, 60)},
             s \in {W(0), W(1), W(86399), W(86400), U32Max, MulSmall(U32Max, 86400), MulSmall(MulSmall(U32Max, 86400), 2),
                    FromDigits(<<1, 8, 4, 4, 6, 7, 4, 4, 0, 7, 3, 7, 0, 9, 5, 5, 1, 6, 1, 5>>),
                    \* 2^64 milliseconds and one day more: far outside the range, whatever the width of the intermediate count
                    FromDigits(<<1, 8, 4, 4, 6, 7, 4, 4, 0, 7, 3, 7, 0, 9, 5, 5, 2>>),
                    FromDigits(<<1, 8, 4, 4, 6, 7, 4, 4, 0, 7, 3, 7, 9, 5, 9, 5, 2>>),
                    \* 2^64 microseconds and nanoseconds, one day more each
                    FromDigits(<<1, 8, 4, 4, 6, 7, 4, 4, 0, 7, 3, 7, 1, 0>>), FromDigits(<<1, 8, 4, 4, 6, 7, 4, 4, 1, 6, 0, 1, 1, 0>>),
                    FromDigits(<<1, 8, 4, 4, 6, 7, 4, 4, 0, 7, 4>>), FromDigits(<<1, 8, 4, 4, 6, 8, 3, 0, 4, 7, 4>>)},
             n \in {0, 1, 999999999}, op \in {"dt_add_dur", "dt_sub_dur", "date_add_dur", "date_sub_dur"}}
     \* DateTime +/- Time: sums and differences that land exactly on, just before and just after a midnight
     \cup {Case([op |-> op], Dt(d, t[1], t[2], o), Tm(b[1], b[2], bo)) :
             d \in KeyDays, t \in KeyTods, b \in KeyTods, o \in {0, 3600}, bo \in {0, -3600}, op \in {"dt_add_time", "dt_sub_time"}}


\* Date +/- Duration takes a Date operand
FixDateOperands(cs) ==
  {IF c.op \in {"date_add_dur", "date_sub_dur"} THEN Case([op |-> c.op, secs |-> c.secs, ns |-> c.ns], DateV(c.a.dn), DateV(c.a.dn)) ELSE c : c \in cs}

(***************************************************************************)
\* C06: pairs around unit boundaries
Near(i, u, k, j) ==   \* i + k units + j nanoseconds, if representable
  LET w == Add(Add(ToWide(i), IF k >= 0 THEN Amount(W(k), u) ELSE Neg(Amount(W(-k), u))), W(j))
  IN FromWide(w)
C06(z) ==
  LET all == {Inst(d, t[1], t[2]) : d \in {MinDn + 3, -1, 0, UnixEpochDn, MaxDn - 3}, t \in {<<0, 0>>, <<43199, 999999999>>, <<86399, 999999999>>}}
      as == {i \in all : InShard((i.dn % 1000) + i.sod)}
      pairs == UNION {{<<a, Near(a, u, k, j)>> : u \in Units, k \in {-2, -1, 0, 1, 2}, j \in {-1, 0, 1}} : a \in as}
      good == {p \in pairs : p[2].k = "ok"}
  IN UNION {{Case([op |-> "dt_since", u |-> u], DtV(p[1], 0), DtV(p[2].inst, o)),
             Case([op |-> "dt_since", u |-> u], DtV(p[2].inst, o), DtV(p[1], 0))} : p \in good, u \in Units, o \in {0, -3600}}
     \cup {Case([op |-> "dt_dur_between"], DtV(p[1], 0), DtV(p[2].inst, 60)) : p \in good}
     \cup UNION {{Case([op |-> "time_since", u |-> u], Tm(a[1], a[2], 0), Tm(b[1], b[2], 3600)),
                  Case([op |-> "time_dur_between"], Tm(a[1], a[2], 0), Tm(b[1], b[2], 0))} :
                    a \in (IF First THEN KeyTods ELSE {}), b \in KeyTods, u \in Units \ {"day"}}
     \cup {Case([op |-> op], DateV(a), DateV(b)) : a \in (IF First THEN KeyDays ELSE {}), b \in KeyDays, op \in {"date_since", "date_dur_between"}}

(***************************************************************************)
\* C03: timestamps and order
TsList == {W(0), W(1), W(-1), W(86399), W(86400), W(86401), W(-86399), W(-86400), W(-86401)}
          \cup {TimestampOf(Inst(d, s, 0)) : d \in {MinDn, MaxDn, 0, -1}, s \in {0, 1, 86399}}
          \cup {Sub(TimestampOf(Inst(MinDn, 0, 0)), W(k)) : k \in {1, 2, 86400}}
          \cup {Add(TimestampOf(Inst(MaxDn, 86399, 0)), W(k)) : k \in {1, 2, 86400}}
          \cup {FromDigits(<<9, 2, 2, 3, 3, 7, 2, 0, 3, 6, 8, 5, 4, 7, 7, 5, 8, 0, 7>>),
                Neg(FromDigits(<<9, 2, 2, 3, 3, 7, 2, 0, 3, 6, 8, 5, 4, 7, 7, 5, 8, 0, 8>>))}
C03(z) ==
  {Case([op |-> op, ts |-> ts], DateV(0), DateV(0)) : op \in {"dt_from_ts", "date_from_ts"}, ts \in TsList}
  \cup {Case([op |-> "dt_ts"], Dt(d, t[1], t[2], o), Dt(0, 0, 0, 0)) : d \in KeyDays \ {MinDn, MaxDn}, t \in KeyTods, o \in {0, 3600, -86399}}
  \cup {Case([op |-> "date_ts"], DateV(d), DateV(d)) : d \in KeyDays}
  \cup {Case([op |-> "dt_cmp"], Dt(d, t[1], t[2], o1), Dt(d + dd, u[1], u[2], o2)) :
          d \in {-1, 0, UnixEpochDn, MinDn + 2, MaxDn - 2}, dd \in {-1, 0, 1}, t \in KeyTods, u \in KeyTods,
          o1 \in {0, 3600}, o2 \in {0, -3600}}
  \cup {Case([op |-> "date_cmp"], DateV(a), DateV(b)) : a \in KeyDays, b \in KeyDays}
  \cup {Case([op |-> op], Dt(d, t[1], t[2], o), Dt(0, 0, 0, 0)) : op \in {"date_from_dt", "dt_copy"},
          d \in KeyDays \ {MinDn, MaxDn}, t \in KeyTods, o \in {0, 3600, -86399}}
  \cup {Case([op |-> op], DateV(d), DateV(d)) : op \in {"dt_from_date", "date_copy", "date_default", "dt_default", "time_default"}, d \in KeyDays}

(***************************************************************************)
\* C08: time of day modulo 24 h
\* counts that land exactly on / next to midnight: the wrap-around boundary of C08
MidnightCounts(t, u, sign) ==
  LET dist == IF sign > 0 THEN Sub(DayNs, TodWide(t)) ELSE TodWide(t)
      n == FloorDivSeq(dist, UnitRadices(u), 1)
  IN {x \in {n, Add(n, W(1)), Sub(n, W(1))} : ~x.neg /\ Cmp(x, U32Max) <= 0}
NanosProbes == {W(0), W(1), Sub(DayNs, W(1)), DayNs, Add(DayNs, W(1)), MulSmall(DayNs, 2),
                    FromDigits(<<1, 8, 4, 4, 6, 7, 4, 4, 0, 7, 3, 7, 0, 9, 5, 5, 1, 6, 1, 5>>),
                    \* 2^32 seconds and 2^32 / 2^33 nanoseconds plus a little: out of the day, but small again once narrowed to 32 bits
                    FromDigits(<<4, 2, 9, 4, 9, 6, 7, 2, 9, 6, 0, 0, 0, 0, 0, 0, 0, 0, 0>>),
                    FromDigits(<<4, 2, 9, 4, 9, 6, 7, 2, 9, 6, 0, 0, 0, 0, 0, 0, 0, 0, 5>>),
                    FromDigits(<<1, 2, 8, 8, 4, 9, 0, 1, 8, 8, 8, 0, 0, 0, 0, 4, 3, 2, 0, 0>>),
                    FromDigits(<<8, 6, 4, 0, 4, 2, 9, 4, 9, 6, 7, 2, 9, 6>>), FromDigits(<<1, 7, 2, 8, 0, 0, 0, 0, 0, 0, 0, 0, 0, 0, 0>>)}
C08(z) ==
  LET ts == {Tm(t[1], t[2], o) : t \in KeyTods \cup {<<86399, 999999000>>, <<82800, 0>>, <<1, 0>>}, o \in {0, 3600, -86399}}
  IN UNION {{Case([op |-> op, u |-> u, n |-> n], a, a) :
               n \in KeyCounts \cup WrapCounts(u) \cup MidnightCounts(TodOf(a), u, IF op = "time_add" THEN 1 ELSE -1)} :
             a \in ts, op \in {"time_add", "time_sub"}, u \in Units \ {"day"}}
     \cup {Case([op |-> op], a, Tm(b[1], b[2], 0)) : a \in ts, b \in KeyTods, op \in {"time_add_time", "time_sub_time"}}
     \cup {Case([op |-> op, secs |-> s, ns |-> n], a, a) : a \in ts, op \in {"time_add_dur", "time_sub_dur"},
             s \in {W(0), W(1), W(86399), W(86400), W(86401), U32Max, MulSmall(U32Max, 86400),
                    FromDigits(<<1, 8, 4, 4, 6, 7, 4, 4, 0, 7, 3, 7, 0, 9, 5, 5, 1, 6, 1, 5>>),
                    \* 2^64 milliseconds and one day more: far outside the range, whatever the width of the intermediate count
                    FromDigits(<<1, 8, 4, 4, 6, 7, 4, 4, 0, 7, 3, 7, 0, 9, 5, 5, 2>>),
                    FromDigits(<<1, 8, 4, 4, 6, 7, 4, 4, 0, 7, 3, 7, 9, 5, 9, 5, 2>>),
                    \* 2^64 microseconds and nanoseconds, one day more each
                    FromDigits(<<1, 8, 4, 4, 6, 7, 4, 4, 0, 7, 3, 7, 1, 0>>), FromDigits(<<1, 8, 4, 4, 6, 7, 4, 4, 1, 6, 0, 1, 1, 0>>),
                    FromDigits(<<1, 8, 4, 4, 6, 7, 4, 4, 0, 7, 4>>), FromDigits(<<1, 8, 4, 4, 6, 8, 3, 0, 4, 7, 4>>)}, n \in {0, 1, 999999999}}
     \cup {Case([op |-> "time_from_dt"], Dt(d, t[1], t[2], o), Dt(0, 0, 0, 0)) : d \in {-2, -1, 0, 1, MinDn + 1, UnixEpochDn}, t \in KeyTods, o \in {0, 3600}}
     \cup {Case([op |-> "time_from_seconds", s |-> s], DateV(0), DateV(0)) : s \in {W(0), W(1), W(86399), W(86400), W(86401), TwoTo31, U32Max}}
     \cup {Case([op |-> "time_from_nanos", n |-> n], DateV(0), DateV(0)) :
             n \in NanosProbes}
     \* every way of obtaining a Time: setters, clears and offset changes too (their result is a time of day in
     \* [0, 24 h) and equal to the canonical value); local readings that land exactly on UTC midnight included
     \cup UNION {{Case([op |-> "time_set", f |-> f, v |-> v], Tm(t[1], t[2], o), Tm(0, 0, 0)) :
                    v \in {W(0), W(1), W(5), W(ClockMax(f))}} :
                   t \in KeyTods \cup {<<2096, 0>>, <<7200, 0>>}, o \in {0, 3600, -3600, 19800, 86399, -86399}, f \in ClockFields}
     \cup {Case([op |-> "time_clear", f |-> f], Tm(t[1], t[2], o), Tm(0, 0, 0)) :
             t \in KeyTods \cup {<<2096, 0>>, <<7200, 0>>}, o \in {0, 3600, -3600, 19800, 86399, -86399}, f \in ClockFields}
     \cup {Case([op |-> op, o |-> o], Tm(t[1], t[2], p), Tm(0, 0, 0)) : op \in {"time_set_offset", "time_as_offset"},
             t \in KeyTods \cup {<<3600, 0>>, <<82800, 0>>}, o \in {0, 3600, -3600, 19800, 86399, -86399}, p \in {0, 3600}}
     \cup {Case([op |-> "time_from_hms", h |-> W(h), mi |-> W(m), s |-> W(s)], DateV(0), DateV(0)) :
             h \in {0, 1, 23, 24}, m \in {0, 59, 60}, s \in {0, 59, 60}}
     \cup {Case([op |-> "time_cmp"], Tm(a[1], a[2], 0), Tm(b[1], b[2], 3600)) : a \in KeyTods, b \in KeyTods}
     \cup {Case([op |-> op], a, a) : a \in ts, op \in {"dt_from_time", "time_copy"}}
     \cup {Case([op |-> "dt_set_time"], Dt(d, t[1], t[2], o), b) : d \in {-1, 0, UnixEpochDn, MinDn + 1}, t \in {<<0, 0>>, <<86399, 999999999>>},
             o \in {0, -3600}, b \in ts}

(***************************************************************************)
\* C09: setters and clears in local time
LocalDates == {<<2022, 1, 31>>, <<2023, 2, 28>>, <<2024, 2, 29>>, <<2022, 5, 31>>, <<2022, 12, 31>>, <<1, 1, 1>>,
               <<2000, 3, 29>>, <<1900, 1, 29>>, <<-1, 1, 29>>, <<-401, 3, 29>>, <<-101, 5, 29>>,
               <<-1, 12, 31>>, <<-5, 2, 29>>, <<-4, 2, 28>>, <<2000, 2, 29>>, <<1900, 2, 28>>, <<2022, 4, 30>>}
SetValues(f) == CASE f = "year" -> {W(-5), W(-4), W(-1), W(0), W(1), W(1900), W(2023), W(2024), W(5879611), W(5879612), W(-5879611), W(-5879612)}
                  [] f = "month" -> {W(0), W(1), W(2), W(4), W(12), W(13), U32Max}
                  [] f = "day" -> {W(0), W(1), W(28), W(29), W(30), W(31), W(32), U32Max}
                  [] f = "doy" -> {W(0), W(1), W(59), W(60), W(365), W(366), W(367), U32Max}
                  [] f = "hour" -> {W(0), W(23), W(24), U32Max}
                  [] f = "minute" -> {W(0), W(59), W(60), TwoTo31}
                  [] f = "second" -> {W(0), W(59), W(60), U32Max}
                  [] f = "milli" -> {W(0), W(999), W(1000), W(100), W(101)}
                  [] f = "micro" -> {W(0), W(999999), W(1000000), W(100000), W(100001)}
                  [] f = "nano" -> {W(0), W(999999999), W(1000000000), W(100000000), W(100000001), U32Max}
AllSetFields == DateFields \cup ClockFields
\* DateTimes whose local reading under offset o is the given wall-clock date and time (UTC date differs for large offsets)
OffValsAll(dates, tods, offs) ==
  UNION {LET u == UtcOf([dn |-> Ymd2Dn(l[1][1], l[1][2], l[1][3]), sod |-> l[2][1], ns |-> l[2][2]], o)
         IN IF u.ok THEN {Dt(u.dn, u.sod, u.ns, o)} ELSE {} :
           l \in {<<ymd, t>> : ymd \in dates, t \in tods}, o \in offs}
OffVals(dates, tods, offs) == {v \in OffValsAll(dates, tods, offs) : InShard((v.dn % 1000) + v.sod + v.off + 86400)}
YearEdgeDates == {<<2024, 1, 1>>, <<2023, 12, 31>>, <<2020, 12, 31>>, <<2021, 1, 1>>, <<2019, 12, 31>>, <<2024, 12, 30>>,
                  <<2022, 5, 1>>, <<2022, 5, 2>>, <<1, 1, 1>>, <<-1, 12, 31>>, <<-5, 12, 31>>, <<-4, 1, 1>>}
CalOffs == {0, 3600, -3600, 19800, -18000, 50400, -43200, 86399, -86399}
CalTods == {<<0, 0>>, <<1800, 999>>, <<7200, 5>>, <<45296, 123456789>>, <<82800, 0>>, <<86399, 999999999>>}
\* C01 / C02 read and written through a DateTime that carries an offset: the date is the local one
C01(z) ==
  LET vals == OffVals(LocalDates, CalTods, CalOffs)
  IN UNION {{Case([op |-> "dt_set", f |-> f, v |-> v], a, a) : v \in SetValues(f)} : a \in vals, f \in {"year", "month", "day"}}
     \cup {Case([op |-> "dt_get"], a, a) : a \in vals}
     \cup {Case([op |-> "dt_as_ymdhms"], a, a) : a \in vals \cup {Dt(d, t[1], t[2], 0) : d \in {-1, -366, -146097, 0, 1, Ymd2Dn(-401, 2, 29), UnixEpochDn - 1, UnixEpochDn, UnixEpochDn + 1, MinDn, MaxDn}, t \in CalTods}}
C02(z) ==
  LET vals == OffVals(YearEdgeDates \cup {<<2024, 2, 29>>, <<2023, 2, 28>>}, CalTods, CalOffs)
  IN {Case([op |-> "dt_set", f |-> "doy", v |-> v], a, a) : a \in vals, v \in SetValues("doy")}
     \cup {Case([op |-> "dt_get"], a, a) : a \in vals}
\* receivers on the first / last representable day whose offset lets a setter push the instant out of the range
EdgeVals == {Dt(MaxDn, 79200, 0, -82800), Dt(MaxDn, 80000, 5, -3600), Dt(MaxDn, 86399, 999999999, -1), Dt(MaxDn - 1, 80000, 0, -3600),
             Dt(MinDn, 0, 0, 86399), Dt(MinDn, 100, 0, 3600), Dt(MinDn, 0, 0, 1), Dt(MinDn + 1, 100, 0, 3600),
             \* receivers whose own local reading is outside the range (results of add_hours / set_time on the last / first day)
             Dt(MaxDn, 82800, 0, 7200), Dt(MaxDn, 86399, 999999999, 1), Dt(MinDn, 3600, 0, -7200), Dt(MinDn, 0, 0, -1)}
EdgeSetValues(f) == SetValues(f) \cup (CASE f = "day" -> {W(11), W(12), W(13), W(22), W(23), W(24)}
                                          [] f = "month" -> {W(6), W(7), W(8)}
                                          [] f = "year" -> {W(5879610), W(-5879610)}
                                          [] f = "doy" -> {W(174), W(175), W(192), W(193), W(194)}
                                          [] OTHER -> {})
EdgeSetCases == IF First THEN UNION {{Case([op |-> "dt_set", f |-> f, v |-> v], a, a) : v \in EdgeSetValues(f)} : a \in EdgeVals, f \in AllSetFields}
                ELSE {}
C09(z) ==
  LET offs == {0, 1, -1, 3600, -3600, 19800, -19800, 86399, -86399}
      \* local wall-clock readings chosen so that the UTC date differs from the local date for large offsets
      locals == {<<ymd, t>> : ymd \in LocalDates, t \in {<<0, 0>>, <<1800, 999>>, <<45296, 123456789>>, <<86399, 999999999>>}}
      vals == UNION {LET u == UtcOf([dn |-> Ymd2Dn(l[1][1], l[1][2], l[1][3]), sod |-> l[2][1], ns |-> l[2][2]], o)
                     IN IF u.ok /\ InShard((u.dn % 1000) + u.sod + o + 86400) THEN {Dt(u.dn, u.sod, u.ns, o)} ELSE {} : l \in locals, o \in offs}
  IN UNION {{Case([op |-> "dt_set", f |-> f, v |-> v], a, a) : v \in SetValues(f)} : a \in vals, f \in AllSetFields}
     \cup {Case([op |-> "dt_clear", f |-> f], a, a) : a \in vals, f \in ClockFields \cup {"year", "month", "day"}}
     \cup UNION {{Case([op |-> "time_set", f |-> f, v |-> v], Tm(t[1], t[2], o), Tm(0, 0, 0)) : v \in SetValues(f)} :
                   t \in (IF First THEN KeyTods ELSE {}), o \in offs, f \in ClockFields}
     \cup {Case([op |-> "time_clear", f |-> f], Tm(t[1], t[2], o), Tm(0, 0, 0)) : t \in (IF First THEN KeyTods ELSE {}), o \in offs, f \in ClockFields}
     \cup UNION {{Case([op |-> "date_set", f |-> f, v |-> v], DateV(Ymd2Dn(d[1], d[2], d[3])), DateV(0)) : v \in SetValues(f)} :
                   d \in (IF First THEN LocalDates ELSE {}), f \in DateFields}
     \cup {Case([op |-> "date_clear", f |-> f], DateV(Ymd2Dn(d[1], d[2], d[3])), DateV(0)) : d \in (IF First THEN LocalDates ELSE {}), f \in {"year", "month", "day"}}
     \cup {Case([op |-> "dt_get"], a, a) : a \in vals}
     \cup {Case([op |-> "dt_as_ymdhms"], a, a) : a \in vals}
     \cup {Case([op |-> "dt_fmt_get"], a, a) : a \in vals}
     \cup EdgeSetCases

(***************************************************************************)
\* C10: offsets
C10(z) ==
  LET offs == {0, 1, -1, 59, -59, 60, -60, 3599, -3599, 3600, -3600, 19800, -19800, 43200, -43200, 86399, -86399, 86400, -86400}
      insts == {Inst(d, t[1], t[2]) : d \in {Ymd2Dn(2022, 5, 31), Ymd2Dn(2022, 12, 31), 0, -1, MinDn + 1, MaxDn - 1, Ymd2Dn(2024, 2, 29)},
                                      t \in {<<0, 0>>, <<1, 0>>, <<43200, 500>>, <<86399, 999999999>>}}
  IN UNION {{Case([op |-> op, o |-> o], DtV(i, p), DtV(i, p)) : op \in {"dt_set_offset", "dt_as_offset"}} :
               i \in insts, o \in offs, p \in {0, 3600, -5}}
     \cup {Case([op |-> op, o |-> o], Tm(t[1], t[2], p), Tm(0, 0, 0)) : op \in {"time_set_offset", "time_as_offset"},
             t \in KeyTods, o \in offs, p \in {0, 3600, -5}}
     \cup {Case([op |-> "dt_get"], DtV(i, o), DtV(i, o)) : i \in insts, o \in offs \ {86400, -86400}}
     \cup {Case([op |-> "dt_as_ymdhms"], DtV(i, o), DtV(i, o)) : i \in insts, o \in offs \ {86400, -86400}}
     \cup {Case([op |-> "dt_fmt_get"], DtV(i, o), DtV(i, o)) : i \in insts, o \in offs \ {86400, -86400}}
     \cup {Case([op |-> op], Tm(t[1], t[2], o), Tm(0, 0, 0)) : op \in {"time_get", "time_fmt_get"}, t \in KeyTods, o \in offs \ {86400, -86400}}
     \cup {Case([op |-> "off_from_seconds", s |-> s], DateV(0), DateV(0)) :
             s \in {W(o) : o \in offs} \cup {W(86401), W(-86401), W(2147483647), Neg(TwoTo31), W(-2147483647)}}
     \cup {Case([op |-> "off_from_hms", h |-> W(h), mi |-> W(m), s |-> W(s)], DateV(0), DateV(0)) :
             h \in {-24, -23, -1, 0, 1, 23, 24}, m \in {0, 1, 59, 60}, s \in {0, 1, 59, 60}}
     \cup {Case([op |-> "off_resolve_hms", o |-> o], DateV(0), DateV(0)) : o \in offs \ {86400, -86400}}

(***************************************************************************)
\* C15: constructors over the cross product of boundary values
C15(z) ==
  LET ys == {W(-5879612), W(-5879611), W(-5), W(-4), W(-1), W(0), W(1), W(1900), W(2023), W(2024), W(5879611), W(5879612),
             W(2147483647), Neg(TwoTo31)}
      ms == {W(0), W(1), W(2), W(6), W(7), W(12), W(13), TwoTo31, U32Max}
      ds == {W(0), W(1), W(12), W(13), W(22), W(23), W(28), W(29), W(30), W(31), W(32), TwoTo31, U32Max}
      \* incl. values that are small again once narrowed to 8 or 16 bits
      hs == {W(0), W(23), W(24), U32Max, W(256), W(65536)}
      mis == {W(0), W(59), W(60), U32Max, W(256), W(315), W(65536), TwoTo31}
      ss == {W(0), W(59), W(60), TwoTo31, W(256), W(65595)}
  IN {Case([op |-> op, y |-> y, m |-> m, d |-> d], DateV(0), DateV(0)) : op \in {"date_from_ymd", "dt_from_ymd"}, y \in ys, m \in ms, d \in ds}
     \cup {Case([op |-> op, h |-> h, mi |-> mi, s |-> s], DateV(0), DateV(0)) : op \in {"dt_from_hms", "time_from_hms"}, h \in hs, mi \in mis, s \in ss}
     \cup {Case([op |-> "dt_from_ymdhms", y |-> y, m |-> m, d |-> d, h |-> h, mi |-> mi, s |-> s], DateV(0), DateV(0)) :
             y \in {W(-5879611), W(0), W(2024), W(5879611)}, m \in {W(0), W(2), W(6), W(7), W(13)}, d \in {W(0), W(12), W(13), W(22), W(23), W(29), W(30)},
             h \in {W(0), W(23), W(24)}, mi \in {W(59), W(60)}, s \in {W(59), W(60)}}
     \cup {Case([op |-> "time_from_nanos", n |-> n], DateV(0), DateV(0)) : n \in NanosProbes}
     \cup {Case([op |-> "time_from_seconds", s |-> x], DateV(0), DateV(0)) : x \in {W(0), W(86399), W(86400), TwoTo31, U32Max}}
     \* setters on receivers in the two partial months at the ends of the range, with and without an offset
     \cup EdgeSetCases
     \cup (IF First THEN UNION {{Case([op |-> "date_set", f |-> f, v |-> v], DateV(d), DateV(0)) : v \in EdgeSetValues(f)} :
                                  d \in {MaxDn, MaxDn - 11, MaxDn - 5, MinDn, MinDn + 7, MinDn + 3}, f \in DateFields}
                        \cup UNION {{Case([op |-> "dt_set", f |-> f, v |-> v], Dt(d, 45296, 789, 0), DateV(0)) : v \in EdgeSetValues(f)} :
                                  d \in {MaxDn, MaxDn - 11, MinDn, MinDn + 7}, f \in AllSetFields}
           ELSE {})

(***************************************************************************)
\* C05: month / year arithmetic - every day of a window of years x counts x four calls
C05(z) ==
  LET lo == IF Thorough THEN Ymd2Dn(-9, 1, 1) ELSE Ymd2Dn(-3, 1, 1)
      hi == IF Thorough THEN Ymd2Dn(9, 12, 31) ELSE Ymd2Dn(3, 12, 31)
      counts == IF Thorough THEN (0..25) \cup {47, 48, 49, 120} ELSE {0, 1, 2, 3, 11, 12, 13, 14, 24, 25, 37, 48, 120}
      \* incl. receivers one month away from the two partial months (23-30 June of the first year, 1-12 July of the last)
      ends == {MinDn, MinDn + 8, MinDn + 30, MinDn + 38, MinDn + 200, MinDn + 372, MaxDn, MaxDn - 11, MaxDn - 30, MaxDn - 41, MaxDn - 200, MaxDn - 366}
      ops == {"add_months", "sub_months", "add_years", "sub_years"}
      mine == {d \in lo..hi : InShard(d)}
  IN {Case([op |-> "date_" \o op, n |-> W(n)], DateV(d), DateV(d)) : d \in mine, n \in counts, op \in ops}
     \cup {Case([op |-> "dt_" \o op, n |-> W(n)], Dt(d, 45296, 789, 0), Dt(d, 0, 0, 0)) :
             d \in {x \in mine : x % 7 = 0 \/ Dn2Ymd(x)[3] >= 28}, n \in {1, 12, 13}, op \in ops}
     \* DateTimes carrying an offset, month ends, local date on either side of the stored date
     \cup UNION {{Case([op |-> "dt_" \o op, n |-> W(n)], a, a) : n \in {0, 1, 2, 11, 12, 13, 48, 1200}, op \in ops} :
                   a \in OffVals({<<2022, 1, 31>>, <<2024, 1, 31>>, <<2024, 2, 29>>, <<2023, 2, 28>>, <<2022, 3, 31>>, <<2022, 12, 31>>,
                                  <<2022, 5, 15>>, <<1, 1, 31>>, <<-1, 12, 31>>, <<2096, 2, 29>>},
                                 {<<0, 0>>, <<1800, 999>>, <<45296, 123456789>>, <<86399, 999999999>>},
                                 {3600, -3600, 19800, 86399, -86399})}
     \cup {Case([op |-> ty \o op, n |-> n], IF ty = "date_" THEN DateV(d) ELSE Dt(d, 1, 2, 0), DateV(d)) :
             ty \in {"date_", "dt_"}, d \in (IF First THEN ends ELSE {}), op \in ops,
             n \in {W(0), W(1), W(5), W(6), W(7), W(12), W(70555338), W(141110676), W(141110677), W(11759222), W(11759223),
                    \* the whole range in months / years: from the first days of the range to the last ones and back
                    W(141110651), W(141110652), W(141110653), W(11759220), W(11759221),
                    W(2147483647), TwoTo31, U32Max}}

(***************************************************************************)
\* C07: all ordered pairs of a window straddling 0001-01-01 (exact clause and antisymmetry)
MonthEndDays == UNION {UNION {{Ymd2Dn(y, m, d) : d \in {dd \in {1, 27, 28, 29, 30, 31} : ValidDate(y, m, dd)}} : m \in {1, 2, 3, 4, 12}} :
                          y \in {2022, 2024, 1}}
C07(z) ==
  LET lo == IF Thorough THEN Ymd2Dn(-1, 6, 1) ELSE Ymd2Dn(-1, 9, 15)
      hi == IF Thorough THEN Ymd2Dn(1, 7, 31) ELSE Ymd2Dn(1, 4, 15)
      leap == IF Thorough THEN Ymd2Dn(2024, 1, 20)..Ymd2Dn(2024, 4, 5) ELSE Ymd2Dn(2024, 2, 20)..Ymd2Dn(2024, 3, 5)
      win == (lo..hi)
      mine == {a \in win : InShard(a)}
  IN {Case([op |-> op], DateV(a), DateV(b)) : a \in mine, b \in win, op \in {"date_months_since", "date_years_since"}}
     \cup {Case([op |-> op], DateV(a), DateV(b)) : a \in {x \in leap : InShard(x)}, b \in leap, op \in {"date_months_since"}}
     \cup {Case([op |-> op], Dt(a, t[1], t[2], 0), Dt(b, u[1], u[2], 0)) :
             a \in {x \in mine : x % 5 = 0}, b \in {x \in win : x % 7 = 0}, t \in {<<0, 0>>, <<43200, 1>>}, u \in {<<0, 0>>, <<43200, 1>>, <<43200, 2>>},
             op \in {"dt_months_since", "dt_years_since"}}
     \* month ends x times of day on both sides of each other (the time of day breaks the tie on the same day of month)
     \cup {Case([op |-> op], Dt(a, t[1], t[2], 0), Dt(b, u[1], u[2], 0)) :
             a \in {x \in MonthEndDays : InShard(x)}, b \in MonthEndDays,
             t \in {<<28800, 0>>, <<43200, 1>>}, u \in {<<0, 0>>, <<43200, 1>>, <<64800, 0>>},
             op \in {"dt_months_since", "dt_years_since"}}
     \* the bracket relation with add_months, also for values carrying offsets
     \cup UNION {{Case([op |-> "dt_months_bracket"], a, b) :
                     b \in OffValsAll({<<2022, 1, 28>>, <<2022, 2, 28>>, <<2022, 1, 10>>, <<2021, 12, 31>>, <<2024, 2, 29>>},
                                   {<<0, 0>>, <<1800, 0>>, <<43200, 1>>, <<84600, 0>>}, {0, 7200, -3600, 86399})} :
                   a \in {x \in OffVals({<<2022, 2, 9>>, <<2022, 2, 28>>, <<2022, 3, 1>>, <<2022, 4, 1>>, <<2023, 2, 28>>, <<2024, 2, 29>>},
                                         {<<600, 0>>, <<28800, 0>>, <<82800, 0>>}, {0, 7200, -3600, -86399}) : TRUE}}
     \cup {Case([op |-> op], DateV(a), DateV(b)) : op \in {"date_months_since", "date_years_since"},
             a \in (IF First THEN {MinDn, MaxDn, 0, Ymd2Dn(2022, 3, 1), Ymd2Dn(2021, 3, 1)} ELSE {}),
             b \in {MinDn, MaxDn, 0, Ymd2Dn(2022, 1, 31), Ymd2Dn(2020, 3, 1), Ymd2Dn(2020, 2, 29)}}

\* (the families take a dummy parameter so that TLC does not pre-evaluate all of them as constants)
Cases(z) == CASE Which = "C01" -> C01(z) [] Which = "C02" -> C02(z) [] Which = "C03" -> C03(z) [] Which = "C04" -> FixDateOperands(C04(z)) [] Which = "C05" -> C05(z)
              [] Which = "C06" -> C06(z) [] Which = "C07" -> C07(z) [] Which = "C08" -> C08(z) [] Which = "C09" -> C09(z)
              [] Which = "C10" -> C10(z) [] Which = "C15" -> C15(z)

ASSUME LET cs == SetToSeq(Cases(0)) IN ndJsonSerialize(IOEnv.OUT, cs) /\ PrintT(<<"GENERATED", Len(cs)>>)
=============================================================================
