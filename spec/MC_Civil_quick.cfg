SPECIFICATION Spec
CONSTANT Steps = 16072
CONSTRAINT Bound
INVARIANTS C01_Dn2Ymd C01_Ymd2Dn C01_ValidLabel C02_Weekday C02_Doy C02_IsoWeek NoYearZero
CHECK_DEADLOCK FALSE
