SPECIFICATION SpecDt
CONSTANTS
  R <- SmallR
  DnLo <- NegThree
  DnHi = 3
  Offsets <- OffsFull
  Counts <- CountsFull
  SubSecs <- SubFull
  OperandSubSecs <- SubQuick
  OperandOffsets <- OffsPair
  TimeValues <- OneTimeValue
  DayLo <- NegOne
  DayHi = 1
INVARIANT TypeOK
VIEW View
CHECK_DEADLOCK FALSE
