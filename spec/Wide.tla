------------------------------- MODULE Wide -------------------------------
(***************************************************************************)
(* Arbitrary-precision integers for TLC, whose native integers are 32-bit  *)
(* and abort on overflow.                                                  *)
(*                                                                         *)
(* A wide integer is a record [neg : BOOLEAN, mag : Seq(0..999)], the      *)
(* magnitude in little-endian base-1000 limbs, normalised: no leading      *)
(* (most significant) zero limb, and zero is <<>> with neg = FALSE.        *)
(* The conformance harness writes wide numbers in exactly this shape by    *)
(* cutting the decimal numeral into groups of three digits - a change of   *)
(* representation, not arithmetic.                                         *)
(***************************************************************************)
EXTENDS Integers, Sequences

B == 1000

RECURSIVE Trim(_)
Trim(s) == IF s = <<>> THEN s
           ELSE IF s[Len(s)] = 0 THEN Trim(SubSeq(s, 1, Len(s) - 1)) ELSE s

Norm(n, mag) == LET t == Trim(mag) IN [neg |-> (n /\ t # <<>>), mag |-> t]

Zero == [neg |-> FALSE, mag |-> <<>>]

RECURSIVE NatMag(_)
NatMag(k) == IF k = 0 THEN <<>> ELSE <<k % B>> \o NatMag(k \div B)

MinInt32 == -2147483647 - 1

\* -k would overflow for the most negative 32-bit integer
FromInt(k) == IF k = MinInt32 THEN [neg |-> TRUE, mag |-> <<648, 483, 147, 2>>]
              ELSE IF k < 0 THEN [neg |-> TRUE, mag |-> NatMag(-k)]
              ELSE [neg |-> FALSE, mag |-> NatMag(k)]

IsWide(x) == /\ DOMAIN x = {"neg", "mag"}
             /\ x.neg \in BOOLEAN
             /\ \A i \in 1..Len(x.mag) : x.mag[i] \in 0..(B - 1)
             /\ (x.mag # <<>> => x.mag[Len(x.mag)] # 0)
             /\ (x.mag = <<>> => ~x.neg)

Limb(s, i) == IF i <= Len(s) THEN s[i] ELSE 0
MaxI(a, b) == IF a > b THEN a ELSE b
MinI(a, b) == IF a < b THEN a ELSE b

RECURSIVE MagCmpAt(_, _, _)
MagCmpAt(a, b, i) == IF i = 0 THEN 0
                     ELSE IF Limb(a, i) < Limb(b, i) THEN -1
                     ELSE IF Limb(a, i) > Limb(b, i) THEN 1
                     ELSE MagCmpAt(a, b, i - 1)
MagCmp(a, b) == MagCmpAt(a, b, MaxI(Len(a), Len(b)))

RECURSIVE MagAddAt(_, _, _, _)
MagAddAt(a, b, i, c) ==
  IF i > MaxI(Len(a), Len(b)) THEN (IF c = 0 THEN <<>> ELSE <<c>>)
  ELSE LET s == Limb(a, i) + Limb(b, i) + c
       IN <<s % B>> \o MagAddAt(a, b, i + 1, s \div B)
MagAdd(a, b) == MagAddAt(a, b, 1, 0)

RECURSIVE MagSubAt(_, _, _, _)
\* requires a >= b
MagSubAt(a, b, i, br) ==
  IF i > Len(a) THEN <<>>
  ELSE LET s == Limb(a, i) - Limb(b, i) - br
       IN IF s < 0 THEN <<s + B>> \o MagSubAt(a, b, i + 1, 1)
                   ELSE <<s>> \o MagSubAt(a, b, i + 1, 0)
MagSub(a, b) == Trim(MagSubAt(a, b, 1, 0))

Neg(x) == Norm(~x.neg, x.mag)
Abs(x) == [neg |-> FALSE, mag |-> x.mag]
IsZero(x) == x.mag = <<>>
Sign(x) == IF x.mag = <<>> THEN 0 ELSE IF x.neg THEN -1 ELSE 1

Add(x, y) == IF x.neg = y.neg THEN Norm(x.neg, MagAdd(x.mag, y.mag))
             ELSE IF MagCmp(x.mag, y.mag) >= 0 THEN Norm(x.neg, MagSub(x.mag, y.mag))
             ELSE Norm(y.neg, MagSub(y.mag, x.mag))
Sub(x, y) == Add(x, Neg(y))

Cmp(x, y) == IF x.neg # y.neg THEN (IF x.neg THEN -1 ELSE 1)
             ELSE IF x.neg THEN MagCmp(y.mag, x.mag) ELSE MagCmp(x.mag, y.mag)
Lt(x, y) == Cmp(x, y) < 0
Le(x, y) == Cmp(x, y) <= 0

RECURSIVE MagMulSmallAt(_, _, _, _)
\* m small: 999*m + carry must stay below 2^31, so 0 <= m <= 2 000 000
MagMulSmallAt(a, m, i, c) ==
  IF i > Len(a) THEN NatMag(c)
  ELSE LET p == a[i] * m + c IN <<p % B>> \o MagMulSmallAt(a, m, i + 1, p \div B)
MulSmall(x, m) == IF m < 0 THEN Norm(~x.neg, MagMulSmallAt(x.mag, -m, 1, 0))
                  ELSE Norm(x.neg, MagMulSmallAt(x.mag, m, 1, 0))

RECURSIVE MagDivSmallAt(_, _, _, _)
\* <<quotient limbs (little endian), remainder>>, processing from the most
\* significant limb; dv small: (dv-1)*1000 + 999 < 2^31, so 1 <= dv <= 2 000 000
MagDivSmallAt(a, dv, i, r) ==
  IF i = 0 THEN <<<<>>, r>>
  ELSE LET cur  == r * B + a[i]
           rest == MagDivSmallAt(a, dv, i - 1, cur % dv)
       IN <<rest[1] \o <<cur \div dv>>, rest[2]>>

\* floor division by a small positive divisor: <<q (wide), r (native, 0 <= r < dv)>>
DivModSmall(x, dv) ==
  LET qr == MagDivSmallAt(x.mag, dv, Len(x.mag), 0)
      q  == Norm(x.neg, qr[1])
      r  == qr[2]
  IN IF ~x.neg \/ r = 0 THEN <<q, r>> ELSE <<Sub(q, FromInt(1)), dv - r>>

\* division truncated toward zero by a small positive divisor (quotient only)
DivTruncSmall(x, dv) == Norm(x.neg, MagDivSmallAt(x.mag, dv, Len(x.mag), 0)[1])

RECURSIVE ToIntAt(_, _)
ToIntAt(mag, i) == IF i > Len(mag) THEN 0 ELSE mag[i] + B * ToIntAt(mag, i + 1)
\* only for values known to fit 32 bits (and not MinInt32)
ToInt(x) == IF x.neg THEN -ToIntAt(x.mag, 1) ELSE ToIntAt(x.mag, 1)

\* |x| < 2 000 000 000, hence safely convertible
FitsInt(x) == Len(x.mag) <= 3 \/ (Len(x.mag) = 4 /\ x.mag[4] <= 1)

\* multiply / divide by a sequence of small radices, one at a time
\* (floor(floor(x/a)/b) = floor(x/(a*b)) for positive a, b)
RECURSIVE MulSeq(_, _, _)
MulSeq(x, s, i) == IF i > Len(s) THEN x ELSE MulSeq(MulSmall(x, s[i]), s, i + 1)
RECURSIVE FloorDivSeq(_, _, _)
FloorDivSeq(x, s, i) == IF i > Len(s) THEN x ELSE FloorDivSeq(DivModSmall(x, s[i])[1], s, i + 1)
TruncDivSeq(x, s) == IF x.neg THEN Neg(FloorDivSeq(Neg(x), s, 1)) ELSE FloorDivSeq(x, s, 1)

\* decimal digits (most significant first) of a non-negative wide number, as a sequence of 0..9
RECURSIVE MagDigits(_, _)
MagDigits(mag, i) ==
  IF i = 0 THEN <<>>
  ELSE LET l == mag[i] IN
       (IF i = Len(mag)
        THEN (IF l >= 100 THEN <<l \div 100, (l \div 10) % 10, l % 10>>
              ELSE IF l >= 10 THEN <<l \div 10, l % 10>> ELSE <<l>>)
        ELSE <<l \div 100, (l \div 10) % 10, l % 10>>) \o MagDigits(mag, i - 1)
Digits(x) == IF x.mag = <<>> THEN <<0>> ELSE MagDigits(x.mag, Len(x.mag))

\* wide number from a sequence of decimal digits (most significant first)
RECURSIVE FromDigitsAt(_, _, _)
FromDigitsAt(ds, i, acc) == IF i > Len(ds) THEN acc
                            ELSE FromDigitsAt(ds, i + 1, Add(MulSmall(acc, 10), FromInt(ds[i])))
FromDigits(ds) == FromDigitsAt(ds, 1, Zero)
=============================================================================
