SPECIFICATION Spec
CONSTANTS
  Alphabet = {"y", "M", "'", "-", "Q"}
  MaxLen = 6
INVARIANTS AgreesWithDefinition Reconcatenates WellFormedTokens
CHECK_DEADLOCK FALSE
