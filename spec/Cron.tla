-------------------------------- MODULE Cron --------------------------------
(***************************************************************************)
(* Cron expressions as astrolabe documents them (C16) and the schedule     *)
(* iterator (C17).                                                         *)
(*                                                                         *)
(* Text is a sequence of one-character strings.  An expression is five     *)
(* whitespace-separated fields; a field is a comma list of items           *)
(*     *  |  * / step  |  a  |  a - b                                      *)
(* over the field's value range; month and weekday values may be written   *)
(* as three-letter names in any case; weekday 7 is Sunday.                 *)
(*                                                                         *)
(*   Recognize(text) = [k |-> "ok", sets |-> <<S1..S5>>]                   *)
(*                   | [k |-> "err"]      a value out of range, zero step, *)
(*                                        empty item, stray character ...  *)
(*                   | [k |-> "any"]      shapes the documentation does    *)
(*                                        not speak about (leading zeros,  *)
(*                                        steps above max+1, ranges that   *)
(*                                        wrap around by name)             *)
(***************************************************************************)
EXTENDS Integers, Sequences, FiniteSets, Text, Civil

FieldMin == <<0, 0, 1, 1, 0>>
FieldMax == <<59, 23, 31, 12, 6>>
RawMax(k) == IF k = 5 THEN 7 ELSE FieldMax[k]       \* 7 is accepted as a weekday
FullSet(k) == FieldMin[k]..FieldMax[k]

MonthNames == << <<"j","a","n">>, <<"f","e","b">>, <<"m","a","r">>, <<"a","p","r">>, <<"m","a","y">>, <<"j","u","n">>,
                 <<"j","u","l">>, <<"a","u","g">>, <<"s","e","p">>, <<"o","c","t">>, <<"n","o","v">>, <<"d","e","c">> >>
DayNames == << <<"s","u","n">>, <<"m","o","n">>, <<"t","u","e">>, <<"w","e","d">>, <<"t","h","u">>, <<"f","r","i">>, <<"s","a","t">> >>

Lower(c) == CASE c = "A" -> "a" [] c = "B" -> "b" [] c = "C" -> "c" [] c = "D" -> "d" [] c = "E" -> "e" [] c = "F" -> "f"
              [] c = "G" -> "g" [] c = "H" -> "h" [] c = "I" -> "i" [] c = "J" -> "j" [] c = "L" -> "l" [] c = "M" -> "m"
              [] c = "N" -> "n" [] c = "O" -> "o" [] c = "P" -> "p" [] c = "R" -> "r" [] c = "S" -> "s" [] c = "T" -> "t"
              [] c = "U" -> "u" [] c = "V" -> "v" [] c = "W" -> "w" [] c = "Y" -> "y" [] OTHER -> c
LowerSeq(s) == [i \in 1..Len(s) |-> Lower(s[i])]

IsSpace(c) == c \in {" ", "\t", "\n", "\r"}

\* ---- splitting ----------------------------------------------------------------
RECURSIVE SplitWs(_, _, _)
\* fields separated by runs of white space
SplitWs(cs, i, cur) ==
  IF i > Len(cs) THEN (IF cur = <<>> THEN <<>> ELSE <<cur>>)
  ELSE IF IsSpace(cs[i]) THEN (IF cur = <<>> THEN SplitWs(cs, i + 1, <<>>) ELSE <<cur>> \o SplitWs(cs, i + 1, <<>>))
  ELSE SplitWs(cs, i + 1, Append(cur, cs[i]))

RECURSIVE SplitOn(_, _, _, _)
\* split on a separator character, keeping empty pieces
SplitOn(cs, sep, i, cur) ==
  IF i > Len(cs) THEN <<cur>>
  ELSE IF cs[i] = sep THEN <<cur>> \o SplitOn(cs, sep, i + 1, <<>>)
  ELSE SplitOn(cs, sep, i + 1, Append(cur, cs[i]))

\* ---- values ---------------------------------------------------------------------
Bad == [k |-> "err"]
Unspec == [k |-> "any"]
Val(v) == [k |-> "ok", v |-> v]

NameIndex(names, s) == IF \E i \in 1..Len(names) : names[i] = s THEN CHOOSE i \in 1..Len(names) : names[i] = s ELSE 0

\* a value token of field k: raw number (weekday 7 kept as 7) with where it came from
ParseValue(k, s) ==
  IF s = <<>> THEN Bad
  ELSE IF AllDigits(s) THEN
       (IF Len(s) > 1 /\ s[1] = "0" THEN Unspec                       \* leading zeros: not documented
        ELSE IF Len(s) > 3 THEN Bad
        ELSE LET v == CharsToNat(s) IN IF v >= FieldMin[k] /\ v <= RawMax(k) THEN Val(v) ELSE Bad)
  ELSE IF k = 4 /\ NameIndex(MonthNames, LowerSeq(s)) # 0 THEN [k |-> "ok", v |-> NameIndex(MonthNames, LowerSeq(s)), name |-> TRUE]
  ELSE IF k = 5 /\ NameIndex(DayNames, LowerSeq(s)) # 0 THEN [k |-> "ok", v |-> NameIndex(DayNames, LowerSeq(s)) - 1, name |-> TRUE]
  ELSE Bad

NormDow(k, v) == IF k = 5 /\ v = 7 THEN 0 ELSE v
IsName(r) == "name" \in DOMAIN r

\* ---- items ------------------------------------------------------------------------
\* denotation of one item of field k: [k |-> "ok", set |-> S] | Bad | Unspec
ParseItem(k, s) ==
  IF s = <<"*">> THEN [k |-> "ok", set |-> FullSet(k)]
  ELSE IF Len(s) >= 2 /\ s[1] = "*" /\ s[2] = "/" THEN
       LET st == SubSeq(s, 3, Len(s)) IN
       IF st = <<>> \/ ~AllDigits(st) THEN Bad
       ELSE IF Len(st) > 1 /\ st[1] = "0" THEN (IF \A i \in 1..Len(st) : st[i] = "0" THEN Bad ELSE Unspec)
       ELSE IF Len(st) > 3 THEN Unspec
       ELSE LET n == CharsToNat(st) IN
            IF n = 0 THEN Bad
            ELSE IF n > FieldMax[k] + 1 THEN Unspec                   \* beyond max+1: not asserted either way
            ELSE [k |-> "ok", set |-> {v \in FullSet(k) : (v - FieldMin[k]) % n = 0}]
  ELSE LET parts == SplitOn(s, "-", 1, <<>>) IN
       IF Len(parts) = 1 THEN
            LET r == ParseValue(k, s) IN
            IF r.k = "ok" THEN [k |-> "ok", set |-> {NormDow(k, r.v)}] ELSE r
       ELSE IF Len(parts) = 2 THEN
            LET a == ParseValue(k, parts[1])  b == ParseValue(k, parts[2]) IN
            IF a.k = "err" \/ b.k = "err" THEN Bad
            ELSE IF a.k = "any" \/ b.k = "any" THEN Unspec
            ELSE IF IsName(a) # IsName(b) /\ a.v > b.v THEN Unspec   \* "6-Sun", "Sat-0": wrap-around not documented
            ELSE IF a.v > b.v THEN (IF IsName(a) \/ (k = 5 /\ a.v = 7) THEN Unspec ELSE Bad)
                                                                       \* "Fri-Mon", "7-1": wrap-around not documented
            ELSE [k |-> "ok", set |-> {NormDow(k, v) : v \in a.v..b.v}]
       ELSE Bad                                                        \* a-b-c: stray "-c"

RECURSIVE FieldDen(_, _, _, _, _)
FieldDen(k, items, i, acc, unspec) ==
  IF i > Len(items) THEN (IF unspec THEN Unspec ELSE [k |-> "ok", set |-> acc])
  ELSE LET r == ParseItem(k, items[i]) IN
       IF r.k = "err" THEN Bad
       ELSE IF r.k = "any" THEN FieldDen(k, items, i + 1, acc, TRUE)
       ELSE FieldDen(k, items, i + 1, acc \cup r.set, unspec)

ParseField(k, s) == FieldDen(k, SplitOn(s, ",", 1, <<>>), 1, {}, FALSE)

Recognize(text) ==
  LET fs == SplitWs(text, 1, <<>>) IN
  IF Len(fs) # 5 THEN Bad
  ELSE LET r == [k \in 1..5 |-> ParseField(k, fs[k])] IN
       IF \E k \in 1..5 : r[k].k = "err" THEN Bad
       ELSE IF \E k \in 1..5 : r[k].k = "any" THEN Unspec
       ELSE [k |-> "ok", sets |-> [k \in 1..5 |-> r[k].set]]

(***************************************************************************)
(* C17: the iterator.  A schedule is <<minutes, hours, days of month,      *)
(* months, days of week>>; time is <<day number, minute of day>>.          *)
(***************************************************************************)
DomRestricted(s) == s[3] # FullSet(3)
DowRestricted(s) == s[5] # FullSet(5)

DayMatches(s, dn) ==
  LET ymd == Dn2Ymd(dn)  wd == Weekday(dn) IN
  /\ ymd[2] \in s[4]
  /\ IF DomRestricted(s) /\ DowRestricted(s) THEN ymd[3] \in s[3] \/ wd \in s[5]
     ELSE IF DomRestricted(s) THEN ymd[3] \in s[3]
     ELSE IF DowRestricted(s) THEN wd \in s[5]
     ELSE TRUE

Matches(s, t) == DayMatches(s, t[1]) /\ (t[2] \div 60) \in s[2] /\ (t[2] % 60) \in s[1]

SetMin(S) == CHOOSE x \in S : \A y \in S : x <= y

\* least matching minute of day strictly greater than lo (lo = -1: from the start of the day), or -1
FirstMod(s, lo) ==
  LET h0 == IF lo < 0 THEN 0 ELSE lo \div 60
      sameHour == IF lo >= 0 /\ h0 \in s[2] THEN {m \in s[1] : m > lo % 60} ELSE {}
      later == {h \in s[2] : IF lo < 0 THEN TRUE ELSE h > h0}
  IN IF sameHour # {} THEN h0 * 60 + SetMin(sameHour)
     ELSE IF later # {} THEN SetMin(later) * 60 + SetMin(s[1])
     ELSE -1

Horizon == 3400        \* days searched (the longest gap of a satisfiable schedule is 29 Feb: 8 years)

RECURSIVE FirstDay(_, _, _)
\* first matching day >= dn, skipping whole months that are not scheduled; -1 beyond the horizon
FirstDay(s, dn, budget) ==
  IF budget <= 0 \/ dn > MaxDn - 40 THEN -1
  ELSE LET ymd == Dn2Ymd(dn) IN
       IF ymd[2] \notin s[4]
       THEN LET skip == MonthLen(ymd[1], ymd[2]) - ymd[3] + 1 IN FirstDay(s, dn + skip, budget - skip)
       ELSE IF DayMatches(s, dn) THEN dn ELSE FirstDay(s, dn + 1, budget - 1)

\* least matching whole minute strictly later than lb = <<dn, minute of day>>, or <<-1, -1>>
NextFire(s, lb) ==
  LET today == IF DayMatches(s, lb[1]) THEN FirstMod(s, lb[2]) ELSE -1 IN
  IF today >= 0 THEN <<lb[1], today>>
  ELSE LET d == FirstDay(s, lb[1] + 1, Horizon) IN
       IF d < 0 THEN <<-1, -1>> ELSE <<d, FirstMod(s, -1)>>

\* the later of two times
TMax(a, b) == IF a[1] > b[1] \/ (a[1] = b[1] /\ a[2] >= b[2]) THEN a ELSE b
TLess(a, b) == a[1] < b[1] \/ (a[1] = b[1] /\ a[2] < b[2])

\* one call of next(): clock = <<dn, second of day>>, last = previous result or <<MinDn, 0>>
IterNext(s, clock, last) == NextFire(s, TMax(<<clock[1], clock[2] \div 60>>, last))
NoLast == <<MinDn, 0>>

\* brute-force definition used to check NextFire in MC_Cron: scan minute by minute
RECURSIVE ScanFrom(_, _, _)
ScanFrom(s, t, budget) ==
  IF budget = 0 THEN <<-1, -1>>
  ELSE LET n == IF t[2] = 1439 THEN <<t[1] + 1, 0>> ELSE <<t[1], t[2] + 1>> IN
       IF Matches(s, n) THEN n ELSE ScanFrom(s, n, budget - 1)

\* a schedule some day of which can ever match
Satisfiable(s) ==
  /\ \A k \in 1..5 : s[k] # {}
  /\ \/ ~DomRestricted(s) \/ DowRestricted(s)
     \/ \E m \in s[4], d \in s[3] : d <= (IF m = 2 THEN 29 ELSE IF m \in {4, 6, 9, 11} THEN 30 ELSE 31)
=============================================================================
