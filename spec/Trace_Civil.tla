----------------------------- MODULE Trace_Civil -----------------------------
(***************************************************************************)
(* Batch validation (conformance channel B) of day-number observations.    *)
(* Each record of the ndjson log IOEnv.TRACE is judged against the closed  *)
(* forms of Civil:                                                         *)
(*   src = "oracle": an answer of the harness's table oracle (channel C)   *)
(*   src = "impl":   what astrolabe returned for that day number           *)
(* The set of failing records is written to IOEnv.OUT.                     *)
(***************************************************************************)
EXTENDS Civil, Text, Wide, TLC, Json, IOUtils, FiniteSets, SequencesExt

Rec == ndJsonDeserialize(IOEnv.TRACE)

Has(r, f) == f \in DOMAIN r

Bar == <<"|">>
\* "w|q|e|eeeeeee|D|ww|qq|DDD|ee|eeeeeeee"
FmtExpected(dn) ==
  LET ymd == Dn2Ymd(dn)
      wd == Weekday(dn)
      mon1 == ((wd + 6) % 7) + 1
  IN JoinWith(<< NatChars(IsoWeek(dn)), NatChars(Quarter(ymd[2])), NatChars(wd + 1), NatChars(mon1),
                 NatChars(Doy(dn)), ZeroPad(IsoWeek(dn), 2), ZeroPad(Quarter(ymd[2]), 2),
                 ZeroPad(Doy(dn), 3), ZeroPad(wd + 1, 2), ZeroPad(mon1, 2) >>, Bar)

TsOfDn(dn) == MulSmall(Sub(FromInt(dn), FromInt(UnixEpochDn)), 86400)

OracleClauses(r) ==
  LET dn == r.dn
      ymd == Dn2Ymd(dn)
  IN  (IF r.ymd = ymd THEN {} ELSE {"oracle.ymd"})
      \cup (IF r.wd = Weekday(dn) THEN {} ELSE {"oracle.weekday"})
      \cup (IF r.doy = Doy(dn) THEN {} ELSE {"oracle.doy"})
      \cup (IF r.wk = IsoWeek(dn) THEN {} ELSE {"oracle.isoweek"})
      \cup (IF r.ylen = YearLen(ymd[1]) THEN {} ELSE {"oracle.yearlen"})
      \cup (IF r.back = dn /\ r.back_doy = dn THEN {} ELSE {"oracle.inverse"})

ImplClauses(r) ==
  IF Has(r, "panic") THEN {"C01.panic"} ELSE
  LET dn == r.dn
      ymd == Dn2Ymd(dn)
  IN  (IF r.ymd = ymd THEN {} ELSE {"C01.as_ymd"})
      \cup (IF r.wd = Weekday(dn) THEN {} ELSE {"C02.weekday"})
      \cup (IF r.doy = Doy(dn) THEN {} ELSE {"C02.day_of_year"})
      \cup (IF r.fmt = FmtExpected(dn) THEN {} ELSE {"C02.format_fields"})
      \cup (IF r.back_ts = TsOfDn(dn) THEN {} ELSE {"C01.from_ymd_back"})
      \cup (IF r.ts = TsOfDn(dn) THEN {} ELSE {"C03.date_timestamp"})

TripleClauses(r) ==
  LET y == r.ymd[1]  m == r.ymd[2]  d == r.ymd[3] IN
  IF y >= -5879612 /\ y <= 5879612 /\ ValidDate(y, m, d)
  THEN (IF r.res.k = "ok" /\ r.res.ts = TsOfDn(Ymd2Dn(y, m, d)) THEN {} ELSE {"C01.from_ymd_value"})
  ELSE (IF r.res.k = "err" /\ r.res.v = "OutOfRange" THEN {} ELSE {"C01.from_ymd_refusal"})

SetDoyClauses(r) ==
  IF ValidYearDoy(r.year, r.n)
  THEN (IF r.res.k = "ok" /\ r.res.ts = TsOfDn(YearDoy2Dn(r.year, r.n)) THEN {} ELSE {"C02.set_doy_value"})
  ELSE (IF r.res.k = "err" /\ r.res.v = "OutOfRange" THEN {} ELSE {"C02.set_doy_refusal"})

Failed(r) == CASE r.src = "oracle" -> OracleClauses(r)
               [] r.src = "impl" -> ImplClauses(r)
               [] r.src = "triple" -> TripleClauses(r)
               [] r.src = "setdoy" -> SetDoyClauses(r)

BadIdx == {i \in 1..Len(Rec) : Failed(Rec[i]) # {}}
BadSeq == LET idx == SetToSeq(BadIdx)
          IN [k \in 1..Len(idx) |-> [i |-> Rec[idx[k]].i, src |-> Rec[idx[k]].src, dn |-> Rec[idx[k]].dn,
                                     clauses |-> SetToSeq(Failed(Rec[idx[k]])),
                                     expected |-> [ymd |-> Dn2Ymd(Rec[idx[k]].dn), wd |-> Weekday(Rec[idx[k]].dn),
                                                   doy |-> Doy(Rec[idx[k]].dn), wk |-> IsoWeek(Rec[idx[k]].dn)]]]

ASSUME ndJsonSerialize(IOEnv.OUT, BadSeq)
ASSUME PrintT(<<"VALIDATED", Len(Rec), "BAD", Cardinality(BadIdx)>>)
=============================================================================
