------------------------------ MODULE Gen_Cron ------------------------------
(***************************************************************************)
(* Channel A generators for the cron properties.                           *)
(*  WHICH = "C16": expressions from the documented grammar (every value,   *)
(*     range, step 1..max+1, names in any case, lists, white-space         *)
(*     variants) and all single-edit mutations of seed expressions, each   *)
(*     classified by Cron!Recognize: accepted with the five denoted sets,  *)
(*     rejected, or unspecified.                                           *)
(*  WHICH = "C17": histories (schedule, start instant, clock advances) with *)
(*     the results Cron!IterNext prescribes for successive next() calls.   *)
(* The abstract item -> text rendering below is the generator side of the  *)
(* grammar; GrammarOK checks it against the recognizer.                    *)
(***************************************************************************)
EXTENDS Cron, TLC, Json, IOUtils, SequencesExt

Which == IOEnv.WHICH
Thorough == IOEnv.TIER = "thorough"
Shard == atoi(IOEnv.SHARD)
NShards == atoi(IOEnv.NSHARDS)
InShard(k) == k % NShards = Shard
First == Shard = 0

Star == <<"*">>
Sp == <<" ">>

Upper(c) == CASE c = "a" -> "A" [] c = "b" -> "B" [] c = "c" -> "C" [] c = "d" -> "D" [] c = "e" -> "E" [] c = "f" -> "F"
              [] c = "g" -> "G" [] c = "h" -> "H" [] c = "i" -> "I" [] c = "j" -> "J" [] c = "l" -> "L" [] c = "m" -> "M"
              [] c = "n" -> "N" [] c = "o" -> "O" [] c = "p" -> "P" [] c = "r" -> "R" [] c = "s" -> "S" [] c = "t" -> "T"
              [] c = "u" -> "U" [] c = "v" -> "V" [] c = "w" -> "W" [] c = "y" -> "Y" [] OTHER -> c
\* the eight ways of casing a three-letter name, selected by a bit mask 0..7
Cased(nm, mask) == << IF mask % 2 = 1 THEN Upper(nm[1]) ELSE nm[1],
                      IF (mask \div 2) % 2 = 1 THEN Upper(nm[2]) ELSE nm[2],
                      IF (mask \div 4) % 2 = 1 THEN Upper(nm[3]) ELSE nm[3] >>
Names(k) == IF k = 4 THEN MonthNames ELSE DayNames
NameOf(k, v) == IF k = 4 THEN MonthNames[v] ELSE DayNames[(v % 7) + 1]

\* ---- abstract items and their text ------------------------------------------------
\* <<"star">>, <<"step", n>>, <<"val", v>>, <<"range", a, b>>, <<"name", v, mask>>, <<"nrange", a, b, mask>>
ItemText(k, it) ==
  CASE it[1] = "star"   -> Star
    [] it[1] = "step"   -> <<"*", "/">> \o NatChars(it[2])
    [] it[1] = "val"    -> NatChars(it[2])
    [] it[1] = "range"  -> NatChars(it[2]) \o <<"-">> \o NatChars(it[3])
    [] it[1] = "name"   -> Cased(NameOf(k, it[2]), it[3])
    [] it[1] = "nrange" -> Cased(NameOf(k, it[2]), it[4]) \o <<"-">> \o Cased(NameOf(k, it[3]), 7 - it[4])
    [] it[1] = "nvrange" -> Cased(NameOf(k, it[2]), it[4]) \o <<"-">> \o NatChars(it[3])      \* "Fri-7"
    [] it[1] = "vnrange" -> NatChars(it[2]) \o <<"-">> \o Cased(NameOf(k, it[3]), it[4])      \* "1-Fri"
ItemDen(k, it) ==
  CASE it[1] = "star"   -> FullSet(k)
    [] it[1] = "step"   -> {v \in FullSet(k) : (v - FieldMin[k]) % it[2] = 0}
    [] it[1] = "val"    -> {NormDow(k, it[2])}
    [] it[1] = "range"  -> {NormDow(k, v) : v \in it[2]..it[3]}
    [] it[1] = "name"   -> {it[2]}
    [] it[1] = "nrange" -> it[2]..it[3]
    [] it[1] \in {"nvrange", "vnrange"} -> {NormDow(k, v) : v \in it[2]..it[3]}

NumItems(k) == {<<"star">>} \cup {<<"step", n>> : n \in 1..(FieldMax[k] + 1)}
               \cup {<<"val", v>> : v \in FieldMin[k]..RawMax(k)}
               \cup {<<"range", a, b>> : a \in FieldMin[k]..RawMax(k), b \in FieldMin[k]..RawMax(k)}   \* incl. a > b (rejected)
NameItems(k) == IF k < 4 THEN {}
                ELSE {<<"name", v, m>> : v \in FullSet(k), m \in 0..7}
                     \cup {<<"nrange", a, b, m>> : a \in FullSet(k), b \in FullSet(k), m \in {0, 3, 5, 7}}
                     \* one end a name, the other a number: both are values of the documented range
                     \cup {<<"nvrange", a, b, m>> : a \in FullSet(k), b \in FieldMin[k]..RawMax(k), m \in {0, 1, 6}}
                     \cup {<<"vnrange", a, b, m>> : a \in FieldMin[k]..RawMax(k), b \in FullSet(k), m \in {0, 2, 7}}
ReducedItems(k) == {<<"star">>, <<"step", 2>>, <<"step", FieldMax[k] + 1>>, <<"val", FieldMin[k]>>, <<"val", RawMax(k)>>,
                    <<"range", FieldMin[k], FieldMin[k] + 1>>, <<"range", FieldMax[k] - 1, RawMax(k)>>,
                    <<"range", FieldMin[k] + 2, FieldMin[k] + 4>>}
                   \cup (IF k >= 4 THEN {<<"name", FieldMin[k] + 1, 1>>, <<"nrange", FieldMin[k] + 1, FieldMin[k] + 3, 5>>} ELSE {})

ItemKey(it) == IF Len(it) = 1 THEN 0 ELSE it[2] + (IF Len(it) >= 3 THEN it[3] ELSE 0)

\* an expression whose k-th field is f and whose other fields are *
ExprWith(k, f) == JoinWith([j \in 1..5 |-> IF j = k THEN f ELSE Star], Sp)

Advance(c, d) == LET t == c[2] + d IN <<c[1] + (t \div 86400), t % 86400>>

RECURSIVE Run(_, _, _, _, _)
\* results of successive next() calls, the clock advancing by advs[i] before call i
Run(s, c, l, advs, i) ==
  IF i > Len(advs) THEN <<>>
  ELSE LET c2 == Advance(c, advs[i])
           r == IterNext(s, c2, l)
       IN <<r>> \o Run(s, c2, r, advs, i + 1)

ProbeStart == <<Ymd2Dn(2022, 1, 1), 0>>
\* how an accepted expression is observed:
\*  probe = k (1..5): only field k is not `*`; the harness reads its denoted set value by value through the iterator
\*  probe = 0: several restricted fields; the first five next() results from ProbeStart are compared
\*  probe = -1: not satisfiable; only acceptance is compared
Outcome(text, probe) ==
  LET r == Recognize(text) IN
  IF r.k = "ok" THEN
       (IF probe > 0 THEN <<[k |-> "ok", field |-> probe, set |-> SetToSortSeq(r.sets[probe], <)]>>
        ELSE IF probe = 0 THEN <<[k |-> "ok", results |-> Run(r.sets, ProbeStart, NoLast, <<0, 0, 0, 0, 0>>, 1)]>>
        ELSE <<[k |-> "ok"]>>)
  ELSE IF r.k = "err" THEN <<[k |-> "err", v |-> "InvalidFormat"]>>
  ELSE <<[k |-> "any"]>>
ProbeOf(text) == LET r == Recognize(text) IN IF r.k = "ok" /\ ~Satisfiable(r.sets) THEN -1 ELSE 0
ParseCase(text, probe) == [op |-> "cron_parse", expr |-> text, probe |-> probe, exp |-> Outcome(text, probe)]

\* generator = recognizer on every well-formed single item (a <= b for ranges)
WellFormed(it) == (it[1] \in {"range", "nrange", "nvrange", "vnrange"}) => it[2] <= it[3]
GrammarBad(z) == {<<k, it>> \in UNION {{<<k, it>> : it \in NumItems(k) \cup NameItems(k)} : k \in 1..5} :
                    /\ WellFormed(it)
                    /\ LET r == Recognize(ExprWith(k, ItemText(k, it)))
                       IN ~(r.k = "ok" /\ r.sets[k] = ItemDen(k, it) /\ \A j \in (1..5) \ {k} : r.sets[j] = FullSet(j))}

\* ---- mutations ------------------------------------------------------------------------
Alphabet == <<"0", "1", "5", "7", "8", "9", "*", "/", ",", "-", "a", "z", "+", " ", "J">>
Seeds == << <<"*", " ", "*", " ", "*", " ", "*", " ", "*">>,
            <<"*", "/", "5", " ", "*", " ", "*", " ", "*", " ", "*">>,
            <<"0", " ", "1", "0", " ", "*", " ", "*", " ", "M", "o", "n", "-", "F", "r", "i">>,
            <<"1", ",", "3", "-", "5", ",", "1", "0", "-", "1", "5", " ", "2", "3", " ", "3", "1", " ", "1", "2", " ", "7">>,
            <<"5", "9", " ", "0", " ", "1", " ", "j", "a", "n", ",", "D", "E", "C", " ", "0", "-", "6">>,
            <<"0", " ", "0", " ", "1", "-", "7", " ", "*", "/", "3", " ", "s", "u", "n", ",", "s", "a", "t">>,
            <<"3", "0", " ", "*", "/", "1", "2", " ", "1", "5", " ", "f", "e", "b", "-", "n", "o", "v", " ", "5", "-", "7">>,
            <<"*", " ", "*", " ", "*", "/", "3", "1", " ", "*", "/", "1", "2", " ", "*", "/", "7">>,
            <<"*", "/", "0", " ", "*", " ", "*", " ", "*", " ", "*", "/", "0">> >>
Delete(s, i) == SubSeq(s, 1, i - 1) \o SubSeq(s, i + 1, Len(s))
Insert(s, i, c) == SubSeq(s, 1, i - 1) \o <<c>> \o SubSeq(s, i, Len(s))
Subst(s, i, c) == [s EXCEPT ![i] = c]
Mutants(s) == {Delete(s, i) : i \in 1..Len(s)}
              \cup {Insert(s, i, Alphabet[c]) : i \in 1..(Len(s) + 1), c \in 1..Len(Alphabet)}
              \cup {Subst(s, i, Alphabet[c]) : i \in 1..Len(s), c \in 1..Len(Alphabet)}

WsVariants == { <<" ", " ", "*", " ", "*", " ", " ", " ", "*", "\t", "*", " ", "*", " ">>,
                <<"*", "\t", "*", "\t", "*", "\t", "*", "\t", "*">>,
                <<"*", " ", "*", " ", "*", " ", "*">>, <<"*", " ", "*", " ", "*", " ", "*", " ", "*", " ", "*">>,
                <<>>, <<" ">>, <<"*">>, <<"*", "*", "*", "*", "*">> }

C16(z) ==
  UNION {{ParseCase(ExprWith(k, ItemText(k, it)), k) : it \in {x \in NumItems(k) \cup NameItems(k) : InShard(ItemKey(x))}} : k \in 1..5}
  \cup UNION {{ParseCase(ExprWith(k, ItemText(k, a) \o <<",">> \o ItemText(k, b)), k) : a \in ReducedItems(k), b \in ReducedItems(k)} :
                k \in {j \in 1..5 : InShard(j)}}
  \cup UNION {{ParseCase(m, ProbeOf(m)) : m \in Mutants(Seeds[i])} : i \in {j \in 1..Len(Seeds) : InShard(j)}}
  \cup (IF First THEN {ParseCase(w, ProbeOf(w)) : w \in WsVariants} ELSE {})
  \* names where the field takes none (minute, hour, day of month; a weekday name as month and the reverse), alone, in a
  \* list and as a range end; and characters that case-fold or normalise to the letters of a name (long s, dotless i,
  \* dotted capital I, Kelvin sign, full-width digits) - none of them is a documented spelling
  \cup (IF First THEN
          {ParseCase(ExprWith(k, t), ProbeOf(ExprWith(k, t))) :
              k \in 1..3, t \in UNION {{nm, <<"1", ",">> \o nm, <<"1", "-">> \o nm, nm \o <<"-">> \o nm} :
                                        nm \in {MonthNames[1], MonthNames[12], Cased(MonthNames[3], 7), DayNames[1], DayNames[6], Cased(DayNames[2], 1)}}}
          \cup {ParseCase(ExprWith(4, nm), ProbeOf(ExprWith(4, nm))) : nm \in {DayNames[i] : i \in 1..7}}
          \cup {ParseCase(ExprWith(5, nm), ProbeOf(ExprWith(5, nm))) : nm \in {MonthNames[i] : i \in 1..12}}
          \cup {ParseCase(ExprWith(k, t), ProbeOf(ExprWith(k, t))) : k \in {4, 5},
                  t \in {<<"ſ","e","p">>, <<"ſ","u","n">>, <<"ſ","a","t">>, <<"f","r","ı">>, <<"f","r","İ">>, <<"F","R","ı">>, <<"j","a","n","-","ſ","e","p">>,
                         <<"1",",","f","r","ı">>, <<"１">>, <<"１","２">>, <<"٣">>, <<"o","c","t","́">>, <<"m","o","n","​">>}}
        ELSE {})

\* ---- C17 histories ------------------------------------------------------------------------
HistExprs == << <<"*", " ", "*", " ", "*", " ", "*", " ", "*">>,
                <<"0", ",", "3", "0", " ", "9", ",", "1", "7", " ", "*", " ", "*", " ", "1", "-", "5">>,
                <<"0", " ", "0", " ", "1", " ", "*", " ", "*">>,
                <<"0", " ", "1", "2", " ", "3", "1", " ", "*", " ", "*">>,
                <<"5", " ", "4", " ", "1", "3", " ", "*", " ", "5">>,
                <<"0", " ", "0", " ", "2", "9", " ", "2", " ", "*">>,
                <<"5", "9", " ", "2", "3", " ", "3", "1", " ", "1", "2", " ", "*">>,
                <<"*", "/", "1", "5", " ", "*", " ", "*", " ", "1", ",", "6", " ", "*">>,
                <<"0", " ", "6", " ", "*", " ", "*", " ", "s", "u", "n">>,
                <<"1", " ", "1", " ", "1", ",", "1", "5", " ", "m", "a", "r", " ", "m", "o", "n">>,
                <<"*", " ", "2", "3", " ", "2", "8", "-", "3", "0", " ", "2", ",", "4", " ", "*">>,
                <<"4", "5", " ", "0", ",", "1", "2", " ", "*", " ", "1", "2", " ", "6">>,
                <<"*", "/", "7", " ", "*", "/", "5", " ", "*", "/", "2", " ", "*", "/", "5", " ", "*">>,
                <<"0", " ", "0", " ", "3", "0", " ", "*", " ", "0", ",", "6">>,
                <<"3", "0", " ", "2", " ", "*", " ", "f", "e", "b", " ", "1">>,
                <<"0", " ", "0", " ", "1", " ", "1", " ", "*">>,
                <<"3", "0", " ", "1", "2", " ", "*", " ", "*", " ", "m", "o", "n">>,
                <<"0", " ", "1", "8", " ", "*", " ", "*", " ", "3">>,
                \* 7 as both ends of a weekday range is Sunday alone, with and without a day-of-month beside it
                <<"0", " ", "0", " ", "*", " ", "*", " ", "7", "-", "7">>,
                <<"0", " ", "0", " ", "1", "5", " ", "*", " ", "7", "-", "7">>,
                <<"3", "0", " ", "6", " ", "*", " ", "*", " ", "5", "-", "7">> >>
HistStarts == << <<Ymd2Dn(2022, 1, 1), 0>>, <<Ymd2Dn(2023, 12, 31), 86399>>, <<Ymd2Dn(2024, 2, 28), 86340>>,
                 <<Ymd2Dn(2024, 2, 29), 43259>>, <<Ymd2Dn(2021, 3, 31), 61201>>, <<Ymd2Dn(1970, 1, 1), 1>>,
                 <<Ymd2Dn(2100, 2, 28), 86399>>, <<Ymd2Dn(2022, 5, 13), 14700>>, <<Ymd2Dn(2022, 10, 30), 3599>>,
                 <<Ymd2Dn(2399, 12, 31), 86340>>, <<Ymd2Dn(2022, 4, 30), 86399>>, <<Ymd2Dn(2025, 6, 15), 43200>>,
                 \* around the leap day that has no successor four years later (2100 is a common year)
                 <<Ymd2Dn(2096, 2, 29), 60>>, <<Ymd2Dn(2096, 2, 28), 86399>>, <<Ymd2Dn(2096, 2, 29), 30>>, <<Ymd2Dn(2097, 6, 1), 0>>, <<Ymd2Dn(2099, 12, 31), 86399>>,
                 \* a Monday and a Wednesday: one and two years later the same month and day fall on other weekdays
                 <<Ymd2Dn(2024, 1, 15), 28800>>, <<Ymd2Dn(2023, 3, 1), 0>> >>
AdvSeqs == IF Thorough
           THEN {<<a, b, c, d>> : a \in {0, 59, 3600}, b \in {0, 1, 60, 86400}, c \in {0, 30, 3599, 2678400}, d \in {0, 61, 31536000}}
           ELSE {<<0, 0, 0>>, <<0, 1, 60>>, <<59, 0, 3599>>, <<30, 86400, 0>>, <<3600, 60, 2678400>>, <<0, 31536000, 1>>,
                 <<61, 61, 61>>, <<86399, 1, 0>>, <<0, 31622400, 0>>, <<0, 31536000, 31536000>>}

HistCase(e, st, advs) ==
  LET s == Recognize(e).sets
  IN [op |-> "cron_hist", expr |-> e, start |-> st, advances |-> advs,
      exp |-> <<[k |-> "ok", results |-> Run(s, st, NoLast, advs, 1)]>>]

C17(z) == {HistCase(HistExprs[i], HistStarts[j], a) : i \in {x \in 1..Len(HistExprs) : InShard(x)}, j \in 1..Len(HistStarts), a \in AdvSeqs}

Cases(z) == IF Which = "C16" THEN C16(z) ELSE C17(z)

ASSUME Which = "C16" /\ First => LET bad == GrammarBad(0) IN PrintT(<<"GRAMMAR", bad>>) /\ bad = {}
ASSUME LET cs == SetToSeq(Cases(0)) IN ndJsonSerialize(IOEnv.OUT, cs) /\ PrintT(<<"GENERATED", Len(cs)>>)
=============================================================================
