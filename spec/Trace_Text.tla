----------------------------- MODULE Trace_Text -----------------------------
(***************************************************************************)
(* Batch validation of text observations (C11, C12, C13, C20):             *)
(*   op = "format"     [ty, val, p, out]          out = value.format(p)    *)
(*   op = "roundtrip"  [ty, val, p, s, r, rf, s2]  s = format(val,p),      *)
(*                      r = parse(s,p) (projection or err), rf = getters   *)
(*                      of r, s2 = format(r,p)                             *)
(*   op = "rfc_write"  [val, prec, out]                                    *)
(*   op = "rfc_read"   [s, r]                                              *)
(*   op = "display" / "fromstr" / "serde"  (C20)                           *)
(* Every record is judged by the operators of Pattern / Rfc3339 on the     *)
(* value's local view; failing records are written to IOEnv.OUT.           *)
(***************************************************************************)
EXTENDS Ops, Pattern, Rfc3339, TLC, Json, IOUtils, FiniteSets, SequencesExt

Rec == ndJsonDeserialize(IOEnv.TRACE)
RealR == <<24, 60, 60, 1000, 1000, 1000>>
RealLo == MinDn
RealHi == MaxDn

DateView(dn, sod, ns, off) ==
  LET ymd == Dn2Ymd(dn) IN
  [y |-> ymd[1], m |-> ymd[2], d |-> ymd[3], wd |-> Weekday(dn), doy |-> Doy(dn), wk |-> IsoWeek(dn),
   h |-> Hour(sod), mi |-> Minute(sod), s |-> Second(sod), ns |-> ns, off |-> off]

\* the view of a value, or [ok |-> FALSE] when its local reading leaves the representable range
ViewOf(val) ==
  CASE val.ty = "date" -> [ok |-> TRUE, v |-> DateView(val.dn, 0, 0, 0)]
    [] val.ty = "time" -> LET l == TodLocal([sod |-> val.sod, ns |-> val.ns], val.off)
                          IN [ok |-> TRUE, v |-> DateView(0, l.sod, l.ns, val.off)]
    [] val.ty = "dt"   -> LET l == LocalOf(Inst(val.dn, val.sod, val.ns), val.off)
                          IN IF l.ok THEN [ok |-> TRUE, v |-> DateView(l.dn, l.sod, l.ns, val.off)] ELSE [ok |-> FALSE]

IsText(x) == DOMAIN x \subseteq 1..Len(x)      \* a sequence (not a record such as [panic |-> ...])

FormatClauses(r) ==
  LET vw == ViewOf(r.val) IN
  IF ~vw.ok THEN {}
  ELSE IF "panic" \in DOMAIN r THEN (IF Balanced(r.p) THEN {"C11.panic"} ELSE {})
  ELSE IF FormatOK(r.p, vw.v, r.val.ty, r.out) THEN {} ELSE {"C11.render"}

(***************************************************************************)
(* C12: what a pattern carries                                             *)
(***************************************************************************)
\* (p below is the TOKEN SEQUENCE of the pattern, computed once per record)
HasRun(p, c) == \E i \in 1..Len(p) : p[i].k = "run" /\ p[i].c = c
RunWidth(p, c) == LET i == CHOOSE j \in 1..Len(p) : p[j].k = "run" /\ p[j].c = c IN p[i].w
Has(p, ty, c) == c \in SymbolsOf(ty) /\ HasRun(p, c)

CarriesYear(p, ty) == Has(p, ty, "y") /\ RunWidth(p, "y") # 2
CarriesMonth(p, ty) == Has(p, ty, "M") /\ Eff(RunWidth(p, "M"), 5, 4) # 5
CarriesDay(p, ty) == Has(p, ty, "d")
CarriesDoy(p, ty) == Has(p, ty, "D")
CarriesPeriod(p, ty) == Has(p, ty, "a") \/ Has(p, ty, "b")
CarriesHour24(p, ty) == Has(p, ty, "H") \/ Has(p, ty, "k")
CarriesHour12(p, ty) == Has(p, ty, "h") \/ Has(p, ty, "K")
CarriesHour(p, ty) == CarriesHour24(p, ty) \/ (CarriesHour12(p, ty) /\ CarriesPeriod(p, ty))
CarriesMinute(p, ty) == Has(p, ty, "m")
CarriesSecond(p, ty) == Has(p, ty, "s")
SubDigits(p, ty) == IF ~Has(p, ty, "n") THEN 0
                    ELSE LET e == Eff(RunWidth(p, "n"), 5, 3) IN CASE e = 1 -> 1 [] e = 2 -> 2 [] e = 3 -> 3 [] e = 4 -> 6 [] e = 5 -> 9
ZoneSym(p, ty) == IF Has(p, ty, "X") THEN "X" ELSE IF Has(p, ty, "x") THEN "x" ELSE ""
\* can the zone symbol of p write this offset exactly?
CarriesOffset(p, ty, off) ==
  LET z == ZoneSym(p, ty) IN
  z # "" /\ (LET e == Eff(RunWidth(p, z), 5, 3) IN IF e \in {4, 5} THEN TRUE ELSE off % 60 = 0)

FullDate(p, ty) == CarriesYear(p, ty) /\ ((CarriesMonth(p, ty) /\ CarriesDay(p, ty)) \/ CarriesDoy(p, ty))
FullTime(p, ty, ns) == /\ CarriesHour(p, ty) /\ CarriesMinute(p, ty) /\ CarriesSecond(p, ty)
                       /\ ns % Pow10(9 - SubDigits(p, ty)) = 0

(***************************************************************************)
(* The unambiguous-pattern grammar of C12, as a predicate on (pattern,     *)
(* value): at most one symbol per field type; variable-width numbers and   *)
(* variable-width zone offsets are followed by a non-digit or the end;     *)
(* |year| < 10^width for yyyyy and longer; no narrow month names; the zone *)
(* symbol can write the offset exactly.  Records outside it are not        *)
(* judged for C12.                                                         *)
(***************************************************************************)
IsSym(t, ty) == t.k = "run" /\ t.c \in SymbolsOf(ty)
FirstChar(t, v, ty) == IF t.k = "text" THEN (IF t.text = <<>> THEN "" ELSE t.text[1])
                       ELSE IF IsSym(t, ty) THEN (LET r == CHOOSE x \in RenderSym(t.c, t.w, v) : TRUE IN IF r = <<>> THEN "" ELSE r[1])
                       ELSE t.c
NeedsTerminator(t, ty) ==
  IsSym(t, ty) /\
  \/ (t.c = "y" /\ t.w \in {1, 3, 4})
  \/ (t.c \in {"M", "d", "h", "H", "K", "k", "m", "s", "w"} /\ t.w = 1)
  \/ (t.c = "D" /\ Eff(t.w, 3, 1) \in {1, 2})
  \/ (t.c \in {"X", "x"} /\ Eff(t.w, 5, 3) \in {1, 4, 5})
FieldGroup(c) == CASE c \in {"h", "H", "K", "k"} -> "hour" [] c \in {"a", "b"} -> "period" [] c \in {"X", "x"} -> "zone" [] OTHER -> c

AsciiLetters == {"a","b","c","d","e","f","g","h","i","j","k","l","m","n","o","p","q","r","s","t","u","v","w","x","y","z",
                 "A","B","C","D","E","F","G","H","I","J","K","L","M","N","O","P","Q","R","S","T","U","V","W","X","Y","Z"}
\* characters that may stand unquoted between fields: anything that cannot be taken for part of a
\* number, a sign or a name (punctuation, blanks, non-ASCII characters)
BareLiteral(c) == ~IsDigit(c) /\ c \notin AsciiLetters /\ c \notin {"+", "\\"}

Unambiguous(p, ty, v) ==
  LET T == p  n == Len(T) IN
  \* one field per group, except that a 24-hour field may stand beside a 12-hour one: both are fixed in text, the text comes
  \* from one value, and the 24-hour field alone determines the hour
  /\ \A i \in 1..n, j \in 1..n : (i < j /\ IsSym(T[i], ty) /\ IsSym(T[j], ty)) =>
         \/ FieldGroup(T[i].c) # FieldGroup(T[j].c)
         \/ ({T[i].c, T[j].c} \cap {"H", "k"} # {} /\ {T[i].c, T[j].c} \cap {"h", "K"} # {})
  /\ \A i \in 1..n : NeedsTerminator(T[i], ty) => (i = n \/ ~IsDigit(FirstChar(T[i + 1], v, ty)))
  \* a width-5 zone offset may end in ":ss": a following ":" would be ambiguous
  /\ \A i \in 1..n : (IsSym(T[i], ty) /\ T[i].c \in {"X", "x"} /\ Eff(T[i].w, 5, 3) = 5 /\ i < n) => FirstChar(T[i + 1], v, ty) # ":"
  /\ \A i \in 1..n : (IsSym(T[i], ty) /\ T[i].c = "y") =>
         /\ (T[i].w = 2 => v.y >= 0)
         /\ (T[i].w >= 5 /\ T[i].w <= 9 => (IF v.y < 0 THEN -v.y ELSE v.y) < Pow10(T[i].w))
  /\ \A i \in 1..n : ~(IsSym(T[i], ty) /\ T[i].c = "M" /\ Eff(T[i].w, 5, 4) = 5)
  /\ (ZoneSym(p, ty) # "" => CarriesOffset(p, ty, v.off))
  \* a character of the pattern that is neither quoted nor a symbol is copied as is; digits, signs and
  \* letters could be mistaken for parts of a neighbouring field, so only punctuation and blanks are used bare
  /\ \A i \in 1..n : (T[i].k = "run" /\ ~IsSym(T[i], ty)) => BareLiteral(T[i].c)
  /\ \A i \in 1..n : T[i].k = "text" => T[i].text # <<>>

(***************************************************************************)
(* The value a pattern can carry: the fields p carries taken from v, every *)
(* other field at its default (year 1, month 1, day 1, 00:00:00.0, UTC).   *)
(* A record is judged for C12 only if this reconstruction exists (e.g. day *)
(* 366 or 29 February need their year) and renders to the same text - i.e. *)
(* derived fields such as weekday, week, quarter, era, noon/midnight are    *)
(* consistent with what the pattern carries.                                *)
(***************************************************************************)
Recon(p, ty, v) ==
  LET hasYY == Has(p, ty, "y") /\ RunWidth(p, "y") = 2
      y2 == IF CarriesYear(p, ty) THEN v.y ELSE 1
      m2 == IF CarriesMonth(p, ty) THEN v.m ELSE 1
      d2 == IF CarriesDay(p, ty) THEN v.d ELSE 1
      dateOk == IF ty = "time" THEN TRUE
                ELSE IF hasYY THEN FALSE
                ELSE IF CarriesDoy(p, ty) THEN ValidYearDoy(y2, v.doy) ELSE ValidDate(y2, m2, d2)
      dn2 == IF ty = "time" \/ ~dateOk THEN 0
             ELSE IF CarriesDoy(p, ty) THEN YearDoy2Dn(y2, v.doy) ELSE Ymd2Dn(y2, m2, d2)
      h2 == IF CarriesHour24(p, ty) \/ (CarriesHour12(p, ty) /\ CarriesPeriod(p, ty)) THEN v.h
            ELSE IF CarriesHour12(p, ty) THEN v.h % 12
            ELSE IF CarriesPeriod(p, ty) THEN (IF v.h >= 12 THEN 12 ELSE 0) ELSE 0
      cut == Pow10(9 - SubDigits(p, ty))
      ymd == Dn2Ymd(dn2)
  IN [ok |-> dateOk,
      v |-> [y |-> ymd[1], m |-> ymd[2], d |-> ymd[3], wd |-> Weekday(dn2), doy |-> Doy(dn2), wk |-> IsoWeek(dn2),
             h |-> IF ty = "date" THEN 0 ELSE h2,
             mi |-> IF ty # "date" /\ CarriesMinute(p, ty) THEN v.mi ELSE 0,
             s |-> IF ty # "date" /\ CarriesSecond(p, ty) THEN v.s ELSE 0,
             ns |-> IF ty = "date" THEN 0 ELSE (v.ns \div cut) * cut,
             off |-> IF ty # "date" /\ ZoneSym(p, ty) # "" THEN v.off ELSE 0]]

DeterministicT(T, v, ty) == \A i \in 1..Len(T) : LET rs == RenderTok(T[i], v, ty) IN
                                                     AnyMark \notin rs /\ \A a \in rs, b \in rs : a = b
JudgedT(r, T) ==
  LET vw == ViewOf(r.val)  ty == r.val.ty IN
  /\ vw.ok /\ IsText(r.s) /\ Unambiguous(T, ty, vw.v)
  /\ LET rc == Recon(T, ty, vw.v) IN
        rc.ok /\ DeterministicT(T, rc.v, ty) /\ FormatFrom(T, 1, rc.v, ty) = r.s
JudgedC12(r) == LET tk == Tokenize(r.p) IN tk.balanced /\ JudgedT(r, tk.toks)

SameValue(val, r) ==
  CASE val.ty = "date" -> r.dn = val.dn /\ "rem" \notin DOMAIN r
    [] val.ty = "dt" -> r.dn = val.dn /\ r.sod = val.sod /\ r.ns = val.ns /\ r.off = val.off
    [] val.ty = "time" -> r.nod = TodWide([sod |-> val.sod, ns |-> val.ns]) /\ r.off = val.off

RoundTripClauses(r) ==
  LET tk == Tokenize(r.p)  p == tk.toks  ty == r.val.ty  vw == ViewOf(r.val) IN
  IF ~tk.balanced THEN {}
  ELSE IF ~JudgedT(r, p) THEN
       \* a pattern inside the grammar whose text is not what the symbol table prescribes for the value: the round trip is
       \* not judged, but the rendering itself (C11's clause on this record) is
       (IF vw.ok /\ IsText(r.s) /\ Unambiguous(p, ty, vw.v) /\ ~MatchFrom(p, 1, r.s, vw.v, ty) THEN {"C11.render"} ELSE {})
  ELSE IF r.r.k # "ok" THEN {"C12.parse_fails"}
  ELSE
   (IF r.s2 = r.s THEN {} ELSE {"C12.reformat_differs"})
   \cup
   (LET full == CASE ty = "date" -> FullDate(p, ty)
                  [] ty = "time" -> FullTime(p, ty, vw.v.ns) /\ (r.val.off = 0 \/ CarriesOffset(p, ty, r.val.off))
                  [] ty = "dt" -> FullDate(p, ty) /\ FullTime(p, ty, vw.v.ns) /\ CarriesOffset(p, ty, r.val.off)
    IN IF full /\ ~SameValue(r.val, r.r) THEN {"C12.value_differs"} ELSE {})
   \cup
   (LET f == r.rf IN        \* fields absent from the pattern take their defaults
    IF \/ (ty # "time" /\ ~Has(p, ty, "y") /\ f.y # 1)
       \/ (ty # "time" /\ ~Has(p, ty, "M") /\ ~CarriesDoy(p, ty) /\ f.m # 1)
       \/ (ty # "time" /\ ~CarriesDay(p, ty) /\ ~CarriesDoy(p, ty) /\ f.d # 1)
       \/ (ty # "date" /\ ~CarriesHour24(p, ty) /\ ~CarriesHour12(p, ty) /\ ~CarriesPeriod(p, ty) /\ f.h # 0)
       \/ (ty # "date" /\ ~CarriesMinute(p, ty) /\ f.mi # 0)
       \/ (ty # "date" /\ ~CarriesSecond(p, ty) /\ f.s # 0)
       \/ (ty # "date" /\ SubDigits(p, ty) = 0 /\ f.nsf # 0)
       \/ (ty # "date" /\ ZoneSym(p, ty) = "" /\ f.off # 0)
    THEN {"C12.default_fields"} ELSE {})

(***************************************************************************)
(* C13                                                                     *)
(***************************************************************************)
RfcJudged(val) == LET vw == ViewOf(val) IN vw.ok /\ vw.v.y >= 1 /\ vw.v.y <= 9999 /\ val.off % 60 = 0

RfcWriteClauses(r) ==
  IF ~RfcJudged(r.val) THEN {}
  ELSE IF ~IsText(r.out) THEN {"C13.write_panics"}
  ELSE LET q == ParseRfc(r.out)  v == ViewOf(r.val).v IN
       IF q.k # "ok" THEN {"C13.write_grammar"}
       ELSE LET l == LocalOf(Inst(r.val.dn, r.val.sod, r.val.ns), r.val.off)
                cut == Pow10(9 - r.prec)
            IN IF /\ Len(q.frac) = r.prec
                  /\ LocalOfParsed(q) = <<l.dn, l.sod, (l.ns \div cut) * cut>>
                  /\ q.off = r.val.off
               THEN {} ELSE {"C13.write_denotes"}

RfcReadClauses(r) ==
  LET q == ParseRfc(r.s) IN
  IF q.k = "range" THEN (IF r.r.k = "err" THEN {} ELSE {"C13.read_accepts_out_of_range"})
  ELSE IF q.k # "ok" THEN {}
  ELSE LET l == LocalOfParsed(q)
           u == UtcOf([dn |-> l[1], sod |-> l[2], ns |-> l[3]], q.off)
       IN IF ~u.ok THEN {}
          ELSE IF r.r.k # "ok" THEN {"C13.read_rejects_valid"}
          ELSE LET exact == Inst(u.dn, u.sod, u.ns)
                   up == Shift(exact, FromInt(1), 1)
                   got == Inst(r.r.dn, r.r.sod, r.r.ns)
               IN (IF r.r.off = q.off /\ (got = exact \/ (CutOff(q.frac) /\ up.k = "ok" /\ got = up.inst))
                   THEN {} ELSE {"C13.read_value"})
                  \* the value read is the canonical representation of that instant (every further reading of it
                  \* equals the reading of a value built from timestamp, nanosecond and offset)
                  \cup (IF r.r.eqc THEN {} ELSE {"C13.read_value_not_canonical"})

(***************************************************************************)
(* C20                                                                     *)
(***************************************************************************)
C(x) == x     \* patterns written as character sequences below
DisplayPattern(ty) ==
  CASE ty = "date" -> <<"y","y","y","y","/","M","M","/","d","d">>
    [] ty = "time" -> <<"H","H",":","m","m",":","s","s">>
    [] ty = "dt"   -> <<"y","y","y","y","/","M","M","/","d","d"," ","H","H",":","m","m",":","s","s">>

DefaultFormClauses(r) ==
  LET vw == ViewOf(r.val) IN
  IF ~vw.ok THEN {} ELSE
  CASE r.op = "display" ->
         IF IsText(r.out) /\ FormatOK(DisplayPattern(r.val.ty), vw.v, r.val.ty, r.out) THEN {} ELSE {"C20.display"}
    [] r.op = "fromstr" ->
         \* r.s is the FromStr text form of val (yyyy-MM-dd / HH:mm:ss), r.r what from_str returned
         (CASE r.val.ty = "date" -> IF r.r.k = "ok" /\ SameValue(r.val, r.r) THEN {} ELSE {"C20.from_str"}
            [] r.val.ty = "time" -> IF r.r.k = "ok" /\ r.r.nod = TodWide([sod |-> vw.v.h * 3600 + vw.v.mi * 60 + vw.v.s, ns |-> 0])
                                       /\ r.r.off = 0 THEN {} ELSE {"C20.from_str"}
            [] r.val.ty = "dt" -> {})
    [] r.op = "serde" ->
         (CASE r.val.ty = "date" -> IF r.back.k = "ok" /\ SameValue(r.val, r.back) THEN {} ELSE {"C20.serde_date"}
            [] r.val.ty = "time" ->
                 \* a Time's offset is not part of its text form: the result shows the same HH:mm:ss
                 IF r.back.k = "ok" /\ r.backf.h = vw.v.h /\ r.backf.mi = vw.v.mi /\ r.backf.s = vw.v.s THEN {} ELSE {"C20.serde_time"}
            [] r.val.ty = "dt" ->
                 IF ~RfcJudged(r.val) THEN {}
                 ELSE IF r.back.k = "ok" /\ r.back.dn = r.val.dn /\ r.back.sod = r.val.sod /\ r.back.off = r.val.off
                 THEN {} ELSE {"C20.serde_datetime"})

\* C14: every outcome is Ok (a valid in-range value) or Err; never a panic
NoPanicClauses(r) == IF r.res.k = "panic" THEN {"C14.panic"}
                     ELSE IF r.res.k = "ok" /\ ~r.res.valid THEN {"C14.ok_but_invalid"} ELSE {}

Explain(r) ==
  IF r.op = "format" /\ ViewOf(r.val).ok /\ Deterministic(r.p, ViewOf(r.val).v, r.val.ty)
  THEN Format(r.p, ViewOf(r.val).v, r.val.ty) ELSE <<>>

Failed(r) == CASE r.op = "format" -> FormatClauses(r)
               [] r.op = "roundtrip" -> RoundTripClauses(r)
               [] r.op = "rfc_write" -> RfcWriteClauses(r)
               [] r.op = "rfc_read" -> RfcReadClauses(r)
               [] r.op \in {"display", "fromstr", "serde"} -> DefaultFormClauses(r)
               [] r.op \in {"parse_any", "format_any", "rfc_any", "fromstr_any", "serde_any", "cron_any"} -> NoPanicClauses(r)

BadIdx == {i \in 1..Len(Rec) : Failed(Rec[i]) # {}}
BadSeq == LET idx == SetToSeq(BadIdx)
          IN [k \in 1..Len(idx) |-> [i |-> Rec[idx[k]].i, event |-> Rec[idx[k]], clauses |-> SetToSeq(Failed(Rec[idx[k]])),
                                     expected |-> Explain(Rec[idx[k]])]]

ASSUME ndJsonSerialize(IOEnv.OUT, BadSeq)
JudgedRoundTrips == Cardinality({i \in 1..Len(Rec) : Rec[i].op = "roundtrip" /\ JudgedC12(Rec[i])})
ASSUME PrintT(<<"VALIDATED", Len(Rec), "BAD", Cardinality(BadIdx), "JUDGED_ROUNDTRIPS", JudgedRoundTrips>>)
=============================================================================
