SPECIFICATION Spec
CONSTANTS
  YearLo <- YLoQ
  YearHi = 4
  Steps <- StepsQ
CHECK_DEADLOCK FALSE
