------------------------------- MODULE Gen_TZ -------------------------------
(***************************************************************************)
(* Channel A for C18: TLC synthesizes well-formed TZif files in abstract   *)
(* form - transition tables with arbitrary type indices, 1..4 local time   *)
(* types, versions 1-3, IANA-shaped POSIX-TZ footers of every day-rule     *)
(* kind and both hemispheres - renders each footer to its text, chooses    *)
(* the instants that matter (each transition -1/0/+1 s, every rule switch  *)
(* +-1 s in leap, common and century years) and records the offset         *)
(* TZif!Lookup prescribes.  The harness serialises each file to bytes and  *)
(* resolves the instants through the real reader.                          *)
(***************************************************************************)
EXTENDS TZif, Text, TLC, Json, IOUtils, SequencesExt, FiniteSets

Shard == atoi(IOEnv.SHARD)
NShards == atoi(IOEnv.NSHARDS)
InShard(k) == k % NShards = Shard

\* ---- POSIX TZ text ------------------------------------------------------------------
Abs(n) == IF n < 0 THEN -n ELSE n
\* hh[:mm[:ss]] of a non-negative number of seconds
HmsText(s) == LET h == s \div 3600  m == (s % 3600) \div 60  x == s % 60 IN
              NatChars(h) \o (IF m # 0 \/ x # 0 THEN <<":">> \o ZeroPad(m, 2) ELSE <<>>)
                          \o (IF x # 0 THEN <<":">> \o ZeroPad(x, 2) ELSE <<>>)
\* POSIX offsets are west-positive: utoff east of UTC is written with the opposite sign
PosixOff(utoff) == (IF utoff > 0 THEN <<"-">> ELSE <<>>) \o HmsText(Abs(utoff))
TimeText(t) == IF t = 7200 THEN <<>> ELSE <<"/">> \o (IF t < 0 THEN <<"-">> ELSE <<>>) \o HmsText(Abs(t))
DayText(d) == CASE d[1] = "J" -> <<"J">> \o NatChars(d[2])
                [] d[1] = "Z" -> NatChars(d[2])
                [] d[1] = "M" -> <<"M">> \o NatChars(d[2]) \o <<".">> \o NatChars(d[3]) \o <<".">> \o NatChars(d[4])
Std == <<"S", "T", "D">>
Dst == <<"<", "+", "D", "S", "T", "1", ">">>          \* a quoted designation, legal in TZif footers
FooterText(f) ==
  CASE f.kind = "none" -> <<>>
    [] f.kind = "fixed" -> Std \o PosixOff(f.off)
    [] f.kind = "alt" -> Std \o PosixOff(f.std) \o Dst
                         \o (IF f.dst = f.std + 3600 /\ f.implicit THEN <<>> ELSE PosixOff(f.dst))
                         \o <<",">> \o DayText(f.s.day) \o TimeText(f.s.time)
                         \o <<",">> \o DayText(f.e.day) \o TimeText(f.e.time)

Alt(std, dst, sday, stime, eday, etime, implicit) ==
  [kind |-> "alt", std |-> std, dst |-> dst, s |-> [day |-> sday, time |-> stime], e |-> [day |-> eday, time |-> etime],
   implicit |-> implicit]
Fixed(off) == [kind |-> "fixed", off |-> off]
NoFooter == [kind |-> "none"]

\* <<footer, minimum version>>
Footers == <<
  <<Fixed(-18000), 2>>, <<Fixed(19800), 2>>, <<Fixed(0), 2>>, <<Fixed(-12600), 2>>,
  <<Alt(3600, 7200, <<"M", 3, 5, 0>>, 7200, <<"M", 10, 5, 0>>, 10800, TRUE), 2>>,
  <<Alt(-18000, -14400, <<"M", 3, 2, 0>>, 7200, <<"M", 11, 1, 0>>, 7200, TRUE), 2>>,
  <<Alt(36000, 39600, <<"M", 10, 1, 0>>, 7200, <<"M", 4, 1, 0>>, 10800, TRUE), 2>>,
  <<Alt(43200, 46800, <<"M", 9, 5, 0>>, 7200, <<"M", 4, 1, 0>>, 10800, FALSE), 2>>,
  <<Alt(7200, 10800, <<"J", 60>>, 0, <<"J", 300>>, 3600, TRUE), 2>>,
  <<Alt(7200, 10800, <<"J", 59>>, 7200, <<"J", 305>>, 7200, TRUE), 2>>,
  <<Alt(-10800, -7200, <<"Z", 59>>, 7200, <<"Z", 300>>, 7200, TRUE), 2>>,
  <<Alt(-10800, -7200, <<"Z", 60>>, 3600, <<"Z", 274>>, 0, FALSE), 2>>,
  <<Alt(-10800, -7200, <<"M", 3, 5, 0>>, -7200, <<"M", 10, 5, 0>>, -3600, TRUE), 3>>,
  <<Alt(7200, 10800, <<"M", 3, 4, 4>>, 93600, <<"M", 10, 5, 0>>, 7200, TRUE), 3>>,
  <<Alt(-16200, -9000, <<"M", 10, 3, 6>>, 86340, <<"M", 2, 3, 6>>, 86340, FALSE), 2>>,
  <<Alt(3600, 5400, <<"M", 5, 1, 3>>, 3661, <<"M", 8, 5, 5>>, 7200, FALSE), 2>>,
  <<Alt(0, 3600, <<"M", 3, 5, 0>>, 3600, <<"M", 10, 5, 0>>, 7200, TRUE), 2>>,
  <<Alt(34200, 37800, <<"M", 10, 1, 0>>, 7200, <<"M", 4, 1, 0>>, 10800, TRUE), 2>>,
  \* the last <weekday> of February: in some leap years it is the 29th
  <<Alt(-10800, -7200, <<"M", 10, 3, 0>>, 0, <<"M", 2, 5, 0>>, 0, FALSE), 2>>,
  <<Alt(7200, 10800, <<"M", 2, 5, 4>>, 10800, <<"M", 10, 5, 0>>, 14400, TRUE), 2>>,
  \* version 3: switch-over times that are negative and carry minutes / seconds (the sign applies to the whole time)
  <<Alt(-10800, -7200, <<"M", 3, 5, 0>>, -5400, <<"M", 10, 5, 0>>, -2730, TRUE), 3>>,
  <<Alt(3600, 7200, <<"M", 3, 5, 0>>, -90061, <<"M", 10, 5, 0>>, 97261, TRUE), 3>> >>

Thorough == IOEnv.TIER = "thorough"
Years == {2023, 2024, 2032, 2037, 2038, 2100, 2400, 1999}       \* 29 February: a Thursday in 2024, a Sunday in 2032 \cup (IF Thorough THEN {1970, 1996, 2000, 2025, 2026, 2027, 2028, 2029, 2030, 2399} ELSE {})

\* thorough tier: every weekday x week of the start month, of the end months, Julian and zero-based days around
\* 29 February, in both hemispheres (files without transitions: the rule decides every instant)
NorthEnd == <<"M", 10, 5, 0>>
NorthStart == <<"M", 3, 5, 0>>
RuleDays == {<<"M", m, w, d>> : m \in {3, 4}, w \in 1..5, d \in 0..6}
EndDays == {<<"M", m, w, d>> : m \in {10, 11}, w \in 1..5, d \in 0..6}
JDays == {<<"J", n>> : n \in {58, 59, 60, 61, 90, 120}} \cup {<<"Z", n>> : n \in {57, 58, 59, 60, 89, 119}}
JEnds == {<<"J", n>> : n \in {274, 300, 305, 334}} \cup {<<"Z", n>> : n \in {273, 300, 304, 334}}
MoreFooters ==
  IF ~Thorough THEN {} ELSE
  {Alt(3600, 7200, s, 7200, NorthEnd, 10800, TRUE) : s \in RuleDays \cup JDays}
  \cup {Alt(-18000, -14400, NorthStart, 7200, e, 7200, TRUE) : e \in EndDays \cup JEnds}
  \cup {Alt(36000, 39600, e, 7200, s, 10800, TRUE) : s \in {<<"M", 4, w, d>> : w \in {1, 5}, d \in 0..6} \cup JDays, e \in {<<"M", 10, 1, 0>>, <<"J", 300>>}}
  \cup {Alt(43200, 46800, <<"M", 9, 5, 0>>, t1, <<"M", 4, 1, 0>>, t2, FALSE) : t1 \in {0, 3600, 7200, 86399, -3600, 93600}, t2 \in {0, 10800, 90000, -7200}}
MoreFiles == {[ver |-> 3, trans |-> <<>>, types |-> <<f.std>>, footer |-> f] :
                f \in {g \in MoreFooters : InShard(g.s.day[2] + g.e.day[2] + g.s.time) /\ \A y \in Years : IanaShaped(g, y)}}

\* ---- transition tables ----------------------------------------------------------------
T(y, m, d, s) == <<Ymd2Dn(y, m, d), s>>
Tables == <<
  <<>>,
  << <<T(2001, 4, 1, 3600), 1>> >>,
  << <<T(1990, 3, 25, 3600), 1>>, <<T(1990, 9, 30, 3600), 0>>, <<T(2007, 3, 11, 25200), 2>> >>,
  << <<T(1970, 1, 1, 0), 0>>, <<T(1980, 4, 6, 7200), 1>>, <<T(1980, 4, 6, 7201), 2>>, <<T(2037, 10, 25, 3600), 1>>,
     <<T(2037, 10, 25, 3601), 0>>, <<T(2038, 1, 19, 11647), 3>> >>,
  << <<T(1901, 12, 13, 74752), 2>>, <<T(1969, 12, 31, 86399), 0>> >> >>
TypeSets == << <<3600>>, <<-18000, -14400>>, <<0, 3600, 7200>>, <<34200, 37800, -37800, 0>> >>

RECURSIVE TransOf(_, _, _)
TransOf(tab, ntypes, i) == IF i > Len(tab) THEN <<>>
                           ELSE <<[t |-> tab[i][1], idx |-> tab[i][2] % ntypes]>> \o TransOf(tab, ntypes, i + 1)

\* make the footer agree with the type in force at the last transition (RFC 8536 3.3): point the last
\* transition at a type that carries the rule's offset at that instant (appended if necessary)
Consistent(ver, tab, types, f) ==
  IF Len(tab) = 0 \/ f.kind = "none" THEN [ver |-> ver, trans |-> TransOf(tab, Len(types), 1), types |-> types, footer |-> f]
  ELSE LET tr == TransOf(tab, Len(types), 1)
           n == Len(tr)
           want == RuleOffset(f, tr[n].t)
           types2 == IF \E i \in 1..Len(types) : types[i] = want THEN types ELSE Append(types, want)
           idx == (CHOOSE i \in 1..Len(types2) : types2[i] = want) - 1
       IN [ver |-> ver, trans |-> [tr EXCEPT ![n] = [t |-> tr[n].t, idx |-> idx]], types |-> types2, footer |-> f]

Files == {Consistent(IF fi = 0 THEN ver ELSE (IF Footers[fi][2] > ver THEN Footers[fi][2] ELSE ver),
                     Tables[ti], TypeSets[si], IF fi = 0 \/ ver = 1 THEN NoFooter ELSE Footers[fi][1]) :
            ver \in 1..3, ti \in 1..Len(Tables), si \in 1..Len(TypeSets), fi \in {x \in 0..Len(Footers) : InShard(x)}}

Around(t) == {TNorm(t[1], t[2] - 1), t, TNorm(t[1], t[2] + 1)}
Instants(tz) ==
  UNION {Around(tz.trans[i].t) : i \in 1..Len(tz.trans)}
  \cup (IF tz.footer.kind = "alt"
        THEN UNION {Around(SwitchAt(tz.footer.s, y, tz.footer.std)) \cup Around(SwitchAt(tz.footer.e, y, tz.footer.dst)) : y \in Years}
        ELSE {})
  \cup {T(2022, 1, 15, 43200), T(2022, 7, 15, 43200), T(2024, 2, 29, 0), T(2100, 3, 1, 12), T(1985, 6, 1, 1), T(2499, 12, 31, 86399),
        T(1900, 1, 1, 0), T(2038, 1, 19, 11648)}
  \* the first and the last year of the range (23 June -5879611 .. 12 July 5879611): some switch-over days of these
  \* years lie outside the range, the rule still decides every instant inside it
  \cup {<<MaxDn, 86399>>, <<MaxDn, 0>>, <<MaxDn - 30, 43200>>, <<MaxDn - 75, 0>>, <<MaxDn - 120, 1>>, <<MaxDn - 192, 0>>, <<MaxDn - 250, 7>>,
        <<MinDn, 0>>, <<MinDn + 1, 43200>>, <<MinDn + 45, 0>>, <<MinDn + 110, 5>>, <<MinDn + 135, 0>>, <<MinDn + 192, 86399>>, <<MinDn + 300, 0>>}

SortedInstants(tz) == SetToSortSeq(Instants(tz), TLt)

LookupCase(tz) ==
  LET ts == SortedInstants(tz) IN
  [op |-> "tz_lookup",
   \* leaps / ind: leap-second records and standard/wall + UT/local indicator arrays in every data block - data
   \* the reader has to step over; they do not enter the lookup
   file |-> [ver |-> tz.ver, trans |-> [i \in 1..Len(tz.trans) |-> <<tz.trans[i].t[1], tz.trans[i].t[2], tz.trans[i].idx>>],
             types |-> tz.types, footer |-> FooterText(tz.footer),
             leaps |-> (Len(tz.trans) + Len(tz.types) + tz.ver) % 4, ind |-> (Len(tz.trans) + tz.ver + Len(tz.types)) % 4],
   ts |-> ts,
   exp |-> <<[k |-> "ok", offs |-> [i \in 1..Len(ts) |-> LET a == Lookup(tz, ts[i]) IN IF a.any THEN "any" ELSE a.off]]>>]

\* every synthesized footer has the IANA shape the property assumes, in every year used
ASSUME \A i \in 1..Len(Footers), y \in Years : IanaShaped(Footers[i][1], y)
ASSUME \A tz \in Files : FooterConsistent(tz)
\* 400-year periodicity of the rule evaluation (what RuleOffset relies on at the ends of the range)
ASSUME \A i \in 1..Len(Footers) : \A t \in {T(2023, 1, 1, 0), T(2023, 3, 26, 3599), T(2023, 3, 26, 3600), T(2024, 2, 29, 5), T(2024, 7, 1, 0),
                                            T(2023, 10, 29, 3600), T(2024, 11, 3, 21600), T(2024, 12, 31, 86399), T(1999, 4, 4, 7200)} :
         RuleOffsetIn(Footers[i][1], t) = RuleOffsetIn(Footers[i][1], <<t[1] + DaysPerEra, t[2]>>)
         /\ RuleOffsetIn(Footers[i][1], t) = RuleOffsetIn(Footers[i][1], <<t[1] - DaysPerEra, t[2]>>)
ASSUME LET cs == SetToSeq({LookupCase(tz) : tz \in Files \cup MoreFiles}) IN ndJsonSerialize(IOEnv.OUT, cs) /\ PrintT(<<"GENERATED", Len(cs)>>)
=============================================================================
