#!/usr/bin/env python3
"""Driver of the model-based verification of GiyoMoon/astrolabe.

  ./check.py <Cxx> [--tier quick|thorough] [--replay <file>]
  ./check.py --setup        build the harness offline
  ./check.py --selftest     demonstrate the binding (corrupted traces must be rejected)

Exit 0: the property held on everything explored (KNOWN-FINDING lines allowed).
Exit 1: at least one unlisted violation (`VIOLATION property=<id> replay=<path>`).
Exit 2: tool error (build failure, TLC crash/timeout, specification-sanity failure)."""
import json, os, sys, time, traceback

sys.path.insert(0, os.path.join(os.path.dirname(os.path.abspath(__file__)), "lib"))
from vlib import *  # noqa

CHECKS = {}


def check(pid):
    def deco(f):
        CHECKS[pid] = f
        return f
    return deco


def sweep_to_violations(ctx, result, prefix):
    """Aggregated sweep output -> one violation record per (clause, class)."""
    for clause, c in result["clauses"].items():
        ctx.evaluations += c["checked"]
        if not clause.startswith(prefix) and clause != "panic":
            # clauses of neighbouring properties evaluated on the way are reported by their own check
            continue
        if c["bad"]:
            first = c["first"]
            for k, (cls, n) in enumerate(sorted(c["classes"].items())):
                w = dict(first[min(k, len(first) - 1)]) if first else {}
                ctx.violations.append({"clause": clause, "class": cls, "count": n, "witness": w})


def cases_to_violations(ctx, summary, mism_path, clause_of):
    ctx.evaluations += summary["cases"]
    for s in summary.get("samples", [])[:2]:
        ctx.sample(s)
    for m in read_ndjson(mism_path):
        ctx.violations.append({"clause": clause_of(m["case"]), "class": m["case"].get("op"),
                               "witness": {"case": m["case"], "observed": m["observed"]}})


def offset_date_cases(ctx):
    """The same date fields read and written through a DateTime carrying an offset (the date is the local one)."""
    cases = gen_cases(ctx, "Gen_Ops", ctx.pid, 4, cfg="Gen_Ops")
    mism = ctx.path("mism-off.ndjson")
    s = harness_json(["replay", "--cases", cases, "--out", mism])
    cases_to_violations(ctx, s, mism, lambda c: "%s.offset.%s%s" % (ctx.pid, c["op"], ("." + c["f"]) if c.get("f") else ""))


def civil_common(ctx):
    """Specification sanity for the calendar + the TLC-generated cycle table."""
    build_harness()
    if ctx.thorough:
        model_check(ctx, "MC_Civil", "MC_Civil_full", workers=4)
        run_tlc(ctx, "MC_CivilPeriod", env={"STRIDE": 1}, timeout=900)
    else:
        model_check(ctx, "MC_Civil", "MC_Civil_quick", workers=4)
        run_tlc(ctx, "MC_CivilPeriod", env={"STRIDE": 11}, timeout=600)
    table = ctx.path("cycle.ndjson")
    run_tlc(ctx, "Gen_Cycle", env={"OUT": table})
    if ctx.thorough and ctx.pid == "C01":
        apalache_roundtrip(ctx)
    return table


def apalache_roundtrip(ctx):
    """Full-range lemma (all 2^32 day numbers at once, SMT): Civil_lemmas_apa!RoundTrip, with the TLC bridge tying
    Civil_lemmas to Civil. Best effort: a time-out is recorded as 'not discharged', never as a failure."""
    import subprocess
    run_tlc(ctx, "MC_CivilLemmaBridge", timeout=600)
    out = ctx.path("apalache")
    cmd = ["apalache-mc", "check", "--init=Init", "--next=Next", "--inv=RoundTrip", "--length=0", "--out-dir=" + out,
           os.path.join(SPEC, "Civil_lemmas_apa.tla")]
    t = time.time()
    try:
        p = subprocess.run(cmd, cwd=ctx.work, stdout=subprocess.PIPE, stderr=subprocess.STDOUT, text=True, timeout=3600)
        txt = p.stdout
    except subprocess.TimeoutExpired:
        txt = "TIMEOUT"
    if "The outcome is: NoError" in txt:
        verdict = "discharged"
    elif "TIMEOUT" in txt:
        verdict = "not discharged (time-out)"
    elif "The outcome is: Error" in txt:
        raise ToolError("Apalache found a counterexample to the calendar round-trip lemma: the specification is wrong")
    else:
        verdict = "not discharged (tool problem)"
    log("[apalache] RoundTrip lemma over all 2^32 day numbers: %s (%.0fs)" % (verdict, time.time() - t))
    ctx.extra["apalache_roundtrip_lemma"] = {"statement": "for every dn in [-2^31, 2^31): Dn2Ymd(dn) is a valid in-range date with no year 0 "
                                                           "and Ymd2Dn(Dn2Ymd(dn)) = dn", "verdict": verdict,
                                             "bridge": "MC_CivilLemmaBridge (TLC): Civil_lemmas = Civil on 35 104 days"}


def civil_samples(ctx, table, prefixes):
    """Channel B: oracle + implementation observations judged by TLC (Trace_Civil)."""
    n = 120000 if ctx.thorough else 20000
    shards = 6 if ctx.thorough else 2
    traces = []
    for k in range(shards):
        t = ctx.path("civil-%d.ndjson" % k)
        harness_json(["oracle-sample", "--table", table, "--out", t, "--n", n // shards],
                     env_extra={"VERIF_SEED": ctx.seed * 1000 + k})
        traces.append(t)
    total, bad = parallel_validate(ctx, "Trace_Civil", traces)
    ctx.evaluations += total
    rows = read_ndjson(traces[0])
    for r in rows[:2000:997]:
        ctx.sample(r)
    for b in bad:
        for cl in b["clauses"]:
            if cl.startswith("oracle."):
                raise ToolError("the harness's table oracle disagrees with the specification: %s" % json.dumps(b))
            if cl.startswith(prefixes):
                ctx.violations.append({"clause": cl, "class": cl, "witness": {"dn": b["dn"], "expected": b["expected"],
                                                                            "src": b["src"]}})
    return total


@check("C01")
def c01(ctx):
    table = civil_common(ctx)
    out = ctx.path("sweep.json")
    run_harness(["sweep", "--table", table, "--out", out, "--what", "days01"] + (["--thorough"] if ctx.thorough else []))
    r1 = json.load(open(out))
    sweep_to_violations(ctx, r1, "C01")
    run_harness(["sweep", "--table", table, "--out", out, "--what", "triples"] + (["--thorough"] if ctx.thorough else []))
    r2 = json.load(open(out))
    sweep_to_violations(ctx, r2, "C01")
    run_harness(["sweep", "--table", table, "--out", out, "--what", "pairs"] + (["--thorough"] if ctx.thorough else []))
    r3 = json.load(open(out))
    sweep_to_violations(ctx, r3, "C01")
    ctx.extra["sweep_space"] = {**r1["space"], **r2["space"], **r3["space"]}
    ctx.exhaustive = True
    civil_samples(ctx, table, ("C01",))
    cases = ctx.path("cases.ndjson")
    o, _, _ = run_tlc(ctx, "Gen_Civil", env={"WHICH": "C01", "OUT": cases})
    mism = ctx.path("mism.ndjson")
    # each constructor call also as the first call of a new thread (no call history)
    s = harness_json(["replay", "--cases", cases, "--out", mism, "--fresh-threads"])
    cases_to_violations(ctx, s, mism, lambda c: "C01." + c["op"][2:])
    offset_date_cases(ctx)
    ndays = 1 << 32
    ctx.extra["distinct_inputs"] = {"day_numbers": ndays, "triples": r2["clauses"].get("C01.triple_value", {}).get("checked", 0)
                                    + r2["clauses"].get("C01.triple_refused", {}).get("checked", 0),
                                    "tlc_generated_cases": s["cases"]}
    ctx.distinct = range(ndays)  # every day number is a distinct input with its own label
    return finish(ctx, rule="every 32-bit day number is swept (as_ymd = TLC-generated cycle table extended by the "
                  "400-year period; from_ymd(as_ymd) gives the day back); from_ymd over year x month 0..13 x day 0..32 "
                  "(all years in thorough, every 97th plus both range ends and years -450..450 in quick); "
                  "TLC-generated boundary cases replayed, among them every (year, month, day) triple of the boundary years reached through "
                  "set_year/set_month/set_day from month-end and 29 February receivers, and the date fields read and written through "
                  "DateTimes carrying 9 offsets whose local date differs from the UTC date; 20k-120k observations (and the table oracle itself) judged by "
                  "TLC against the closed forms. distinct_nontrivial = distinct day numbers swept (each has its own label).",
                  trusted=["harness: table lookup + 400-year extension (re-validated by TLC on every run through "
                           "Trace_Civil 'oracle' events)", "Date::from_timestamp is used to reach a day number"])


@check("C02")
def c02(ctx):
    table = civil_common(ctx)
    out = ctx.path("sweep.json")
    run_harness(["sweep", "--table", table, "--out", out, "--what", "days02"] + (["--thorough"] if ctx.thorough else []))
    r1 = json.load(open(out))
    sweep_to_violations(ctx, r1, "C02")
    run_harness(["sweep", "--table", table, "--out", out, "--what", "setdoy"] + (["--thorough"] if ctx.thorough else []))
    r2 = json.load(open(out))
    sweep_to_violations(ctx, r2, "C02")
    ctx.extra["sweep_space"] = {**r1["space"], **r2["space"]}
    ctx.exhaustive = True
    civil_samples(ctx, table, ("C02",))
    cases = ctx.path("cases.ndjson")
    run_tlc(ctx, "Gen_Civil", env={"WHICH": "C02", "OUT": cases})
    mism = ctx.path("mism.ndjson")
    s = harness_json(["replay", "--cases", cases, "--out", mism])
    cases_to_violations(ctx, s, mism, lambda c: "C02." + c["op"][2:])
    offset_date_cases(ctx)
    # the w / q / e / D fields at every width on runs of consecutive days, judged by the pattern specification
    tcases = gen_cases(ctx, "Gen_Text", "C02", 4, cfg="Gen_Text")
    text_validate(ctx, observe_and_validate(ctx, tcases), "generated", {})
    ctx.distinct = range(1 << 32)
    return finish(ctx, rule="every 32-bit day number: weekday() and day_of_year() against the TLC-generated cycle table; "
                  "format fields w q e eeeeeee D on every 37th day (quick) / every day (thorough); set_day_of_year(0..367) "
                  "on a date of every 61st year plus edges (quick) / every year (thorough); TLC-generated setter cases, also through "
                  "DateTimes carrying 9 offsets around year ends (weekday, day_of_year, set_day_of_year in local time); "
                  "sampled observations incl. ww qq DDD ee eeeeeeee judged by TLC. distinct_nontrivial = distinct day numbers swept.",
                  trusted=["harness: table lookup + 400-year extension (re-validated by TLC on every run)",
                           "Date::from_timestamp is used to reach a day number"])


# ---------------------------------------------------------------------------------------------
# Value-algebra properties (C03-C10, C15): one generic pipeline
#   spec sanity (MC_* small-instance / calendar models)  ->  channel A (Gen_Ops grids replayed)
#   ->  channel B (recorded sessions validated stepwise by Trace_Session)
# ---------------------------------------------------------------------------------------------
OPS = {
    # pid: scenario, MC models (module, quick cfg, full cfg), generator shards, events quick/thorough, trace shards q/t
    "C03": dict(scen="c03", mc=[("MC_TimeLine", "MC_TimeLine_dt_quick", "MC_TimeLine_dt_full")], gshards=1, ev=(120000, 1200000), ts=(10, 40)),
    "C04": dict(scen="c04", mc=[("MC_TimeLine", "MC_TimeLine_dt_quick", "MC_TimeLine_dt_full")], gshards=4, ev=(160000, 1600000), ts=(10, 40)),
    "C05": dict(scen="c05", mc=[("MC_Months", "MC_Months_quick", "MC_Months_full")], gshards=10, ev=(60000, 600000), ts=(8, 30)),
    "C06": dict(scen="c06", mc=[("MC_TimeLine", "MC_TimeLine_dt_quick", "MC_TimeLine_dt_full")], gshards=10, ev=(160000, 1600000), ts=(10, 40)),
    "C07": dict(scen="c07", mc=[("MC_Months", "MC_Months_quick", "MC_Months_full")], gshards=10, ev=(60000, 600000), ts=(8, 30)),
    "C08": dict(scen="c08", mc=[("MC_TimeLine", "MC_TimeLine_time_quick", "MC_TimeLine_time_full")], gshards=1, ev=(160000, 1600000), ts=(10, 40)),
    "C09": dict(scen="c09", mc=[("MC_TimeLine", "MC_TimeLine_dt_quick", "MC_TimeLine_dt_full")], gshards=10, ev=(120000, 1200000), ts=(10, 40)),
    "C15": dict(scen="c15", mc=[("MC_TimeLine", "MC_TimeLine_dt_quick", "MC_TimeLine_dt_full"), ("MC_Civil", "MC_Civil_quick", "MC_Civil_full")],
                gshards=1, ev=(120000, 1200000), ts=(10, 40)),
    "C10": dict(scen="c10", mc=[("MC_TimeLine", "MC_TimeLine_dt_quick", "MC_TimeLine_dt_full")], gshards=2, ev=(120000, 1200000), ts=(10, 40)),
}


def mag_class(w):
    """coarse magnitude class of a wide argument (number of base-1000 limbs)"""
    if isinstance(w, dict) and "mag" in w:
        return ("-" if w.get("neg") else "+") + str(len(w["mag"]))
    return ""


def event_key(e, res):
    return (e.get("op"), e.get("u") or e.get("f") or "", res.get("k"), mag_class(e.get("n")) or mag_class(e.get("v"))
            or mag_class(e.get("secs")) or mag_class(e.get("ts")))


def gen_cases(ctx, module, which, shards, cfg=None):
    """Channel A: TLC generates the case family `which` in `shards` parallel processes."""
    from concurrent.futures import ThreadPoolExecutor
    outs = [ctx.path("cases-%s-%d.ndjson" % (which, k)) for k in range(shards)]

    def one(k):
        o, _, _ = run_tlc(ctx, module, cfg, env={"WHICH": which, "TIER": ctx.tier, "SHARD": k, "NSHARDS": shards,
                                                 "OUT": outs[k]}, timeout=1500)
        return o
    with ThreadPoolExecutor(max_workers=min(shards, 16)) as ex:
        list(ex.map(one, range(shards)))
    allp = ctx.path("cases-%s.ndjson" % which)
    with open(allp, "w") as w:
        for o in outs:
            if os.path.exists(o):
                w.write(open(o).read())
    return allp


def replay_cases(ctx, cases, profile="release"):
    mism = cases + ".mism"
    # C15 (constructors): each call also as the first call of a new thread, i.e. without any call history
    extra = ["--fresh-threads"] if ctx.pid == "C15" else []
    s = harness_json(["replay", "--cases", cases, "--out", mism] + extra, profile=profile)
    ctx.evaluations += s["cases"]
    for smp in s.get("samples", [])[:2]:
        ctx.sample(smp)
    for c in read_ndjson(cases)[::7]:
        for ex in c.get("exp", [])[:1]:
            ctx.distinct.add(event_key(c, ex))
    for m in read_ndjson(mism):
        c = m["case"]
        ctx.violations.append({"clause": "%s.%s%s" % (ctx.pid, c["op"], ("." + (c.get("u") or c.get("f"))) if (c.get("u") or c.get("f")) else ""),
                               "class": c["op"], "witness": {"case": c, "observed": m["observed"], "profile": profile}})
    return s


def record_and_validate(ctx, scenario, events, shards, profile="release", module="Trace_Session", seed_base=0):
    """Channel B: record `shards` sessions in parallel, validate each with TLC (the spec carries the registers)."""
    from concurrent.futures import ThreadPoolExecutor
    per = max(events // shards, 1000)
    traces = [ctx.path("sess-%s-%s-%d.ndjson" % (scenario, profile, k)) for k in range(shards)]
    seeds = [ctx.seed * 100003 + seed_base + k for k in range(shards)]

    def rec(k):
        return harness_json(["record", "--scenario", scenario, "--out", traces[k], "--n", per], profile=profile,
                            env_extra={"VERIF_SEED": seeds[k]})
    build_harness(profile)
    with ThreadPoolExecutor(max_workers=8) as ex:
        list(ex.map(rec, range(shards)))
    total, bad = parallel_validate(ctx, module, traces, jobs=10)
    ctx.evaluations += total
    for t in traces[:2]:
        for e in read_ndjson(t)[5:4000:1777]:
            ctx.sample(e)
    for t in traces:
        with open(t) as fh:
            for line in fh:
                e = json.loads(line)
                ctx.distinct.add(event_key(e, e.get("res", {})))
    # map bad events to the shard they came from (for replay)
    index = {}
    for k, t in enumerate(traces):
        index[t] = k
    for b in bad:
        e = b["event"]
        uf = e.get("u") or e.get("f")
        ctx.violations.append({"clause": "%s.%s%s" % (ctx.pid, e["op"], ("." + uf) if uf else ""), "class": e["op"],
                               "witness": {"scenario": scenario, "profile": profile, "n": per, "event": e,
                                           "expected": b["expected"], "seeds": seeds}})
    ctx.last_traces = traces
    ctx.last_seeds = seeds
    ctx.last_per = per
    return total


def bounds_validate(ctx, scenario):
    """C15, range-statement clause: the error texts logged in the recorded sessions, judged by Trace_Bounds."""
    from concurrent.futures import ThreadPoolExecutor

    def one(t):
        return validate_trace(ctx, "Trace_Bounds", t, timeout=1500)
    with ThreadPoolExecutor(max_workers=10) as ex:
        res = list(ex.map(one, ctx.last_traces))
    judged = 0
    for n, bad in res:
        judged += n
        for b in bad:
            e = b["event"]
            ctx.violations.append({"clause": "C15.range_text.%s" % e["op"], "class": e["op"],
                                   "witness": {"scenario": scenario, "profile": "release", "n": ctx.last_per, "event": e,
                                               "stated": b["stated"], "seeds": ctx.last_seeds, "validator": "Trace_Bounds"}})
    ctx.extra["error_texts_judged"] = judged
    ctx.evaluations += judged


def ops_check(ctx):
    cfg = OPS[ctx.pid]
    build_harness()
    for (mod, q, f) in cfg["mc"]:
        model_check(ctx, mod, f if ctx.thorough else q, workers=8, timeout=3000, heap="6g")
    cases = gen_cases(ctx, "Gen_Ops", ctx.pid, cfg["gshards"], cfg="Gen_Ops")
    replay_cases(ctx, cases)
    ev = cfg["ev"][1 if ctx.thorough else 0]
    sh = cfg["ts"][1 if ctx.thorough else 0]
    record_and_validate(ctx, cfg["scen"], ev, sh)
    if ctx.pid == "C15":
        bounds_validate(ctx, cfg["scen"])
    if ctx.thorough:
        # what a release user gets: overflow checks off, arithmetic slips become wrong values instead of panics
        replay_cases(ctx, cases, profile="nochecks")
        record_and_validate(ctx, cfg["scen"], ev // 4, max(sh // 4, 2), profile="nochecks", seed_base=5000)
    return finish(ctx, rule="channel A: every case of the TLC-generated grid Gen_Ops/%s replayed on the real code and compared "
                  "with the outcome set Ops!Allowed; channel B: random boundary-dense sessions (scenario %s) recorded from the "
                  "real code and validated event by event by Trace_Session, the specification carrying the register values. "
                  "distinct_nontrivial = distinct (operation, unit/field, outcome kind, argument magnitude class) combinations "
                  "among the generated cases (every 7th sampled) and all recorded events." % (ctx.pid, cfg["scen"]),
                  trusted=["harness: construction of operands through public constructors (from_timestamp, add_nanos, set_offset, "
                           "from_nanos) and projection through timestamp()/nano()/get_offset()/as_nanos()"])


for _pid in OPS:
    CHECKS[_pid] = ops_check


def replay_ops(ctx, rp):
    w = rp["witness"]
    build_harness(w.get("profile", "release"))
    if "case" in w:
        cases = ctx.path("case.ndjson")
        write_ndjson(cases, [w["case"]])
        replay_cases(ctx, cases, profile=w.get("profile", "release"))
        return
    # a session event: re-record the deterministic session it came from and re-validate it
    scenario, per = w["scenario"], w["n"]
    target = w["event"]
    for sd in w["seeds"]:
        t = ctx.path("replay-%d.ndjson" % sd)
        harness_json(["record", "--scenario", scenario, "--out", t, "--n", per], profile=w.get("profile", "release"),
                     env_extra={"VERIF_SEED": sd})
        evs = read_ndjson(t)
        i = target.get("i")
        same = i is not None and i < len(evs) and all(evs[i].get(k) == target.get(k) for k in target if k not in ("res",))
        if not same:
            continue
        n, bad = validate_trace(ctx, w.get("validator", "Trace_Session"), t)
        for b in bad:
            if b["event"].get("i") == i:
                ctx.violations.append({"clause": "%s.%s" % (ctx.pid, b["event"]["op"]), "class": b["event"]["op"],
                                       "witness": {"event": b["event"], "expected": b.get("expected", b.get("stated"))}})
        return
    raise ToolError("could not locate the recorded session of this replay file")


# ---------------------------------------------------------------------------------------------
# Cron (C16, C17)
# ---------------------------------------------------------------------------------------------
def cron_case_violations(ctx, cases, clause_of):
    mism = cases + ".mism"
    s = harness_json(["replay", "--cases", cases, "--out", mism])
    ctx.evaluations += s["cases"]
    for smp in s.get("samples", [])[:3]:
        ctx.sample(smp)
    for c in read_ndjson(cases):
        e = c["exp"][0]
        txt = "".join(c["expr"])
        shape = "".join("d" if ch.isdigit() else ("a" if ch.isalpha() else ch) for ch in txt)
        ctx.distinct.add((c["op"], e.get("k"), shape if c["op"] == "cron_parse" else (txt, tuple(c.get("advances", [])))))
    for m in read_ndjson(mism):
        c = m["case"]
        ctx.violations.append({"clause": clause_of(c, m["observed"]), "class": "".join(c["expr"])[:40],
                               "witness": {"case": c, "observed": m["observed"], "expr_text": "".join(c["expr"])}})
    return s


@check("C16")
def c16(ctx):
    build_harness()
    model_check(ctx, "MC_Cron", "MC_Cron_full" if ctx.thorough else "MC_Cron_quick", workers=8, timeout=3000, heap="6g")
    cases = gen_cases(ctx, "Gen_Cron", "C16", 8, cfg="Gen_Cron")

    def clause(c, obs):
        e = c["exp"][0]
        if e["k"] == "err":
            return "C16.rejects"
        if obs.get("k") != "ok":
            return "C16.accepts"
        return "C16.denotes"
    cron_case_violations(ctx, cases, clause)
    # channel B: random expressions of the full grammar and random edits of them; Trace_Cron judges acceptance
    # (Cron!Recognize) and, for accepted ones, the denotation through every result of the iterator
    cron_channel_b(ctx, "C16", "c16", 16 if ctx.thorough else 8, 6000 if ctx.thorough else 900)
    ctx.exhaustive = True
    return finish(ctx, rule="TLC enumerates, per field (others *): every single item of the documented grammar (every value, every "
                  "range a-b incl. a>b, every step 1..max+1, names in all 8 casings, name ranges), all 2-item lists of a reduced item "
                  "set, white-space variants, and ALL single-edit mutations (delete/insert/substitute over 15 characters) of 8 seed "
                  "expressions; Cron!Recognize classifies each (accepted with denoted sets / rejected / unspecified) and the "
                  "generator side of the grammar is checked against the recognizer (GRAMMAR = {}). Accepted single-field expressions "
                  "are observed value by value through the real iterator under the pinned clock; multi-field ones by their first five "
                  "results. Channel B: random expressions over the whole grammar (lists containing *, weekday 7, names, steps, tab and "
                  "double-space separators), 2 in 5 with one or two random character edits; Trace_Cron judges accept/reject with "
                  "Cron!Recognize and steps accepted schedules through 2-5 next() calls. distinct_nontrivial = distinct (classification, character-class shape of the expression) pairs.",
                  trusted=["verification hook astrolabe::verif::set_cron_now (pins the clock read by next())",
                           "the membership probe relies on next() returning the following minute when it matches (C17)"])


def cron_channel_b(ctx, prop, mode, shards, per):
    """channel B: random histories, validated stepwise by Trace_Cron (the specification carries `last`)"""
    from concurrent.futures import ThreadPoolExecutor
    traces = [ctx.path("cron-%d.ndjson" % k) for k in range(shards)]
    seeds = [ctx.seed * 7919 + k for k in range(shards)]
    extra = ["--mode", mode] if mode else []

    def rec(k):
        return harness_json(["record-cron", "--out", traces[k], "--n", per] + extra, env_extra={"VERIF_SEED": seeds[k]})
    with ThreadPoolExecutor(max_workers=8) as ex:
        list(ex.map(rec, range(shards)))
    total, bad = parallel_validate(ctx, "Trace_Cron", traces, jobs=10, timeout=3000)
    ctx.evaluations += total
    for e in read_ndjson(traces[0])[:9]:
        ctx.sample(e)
    for t in traces:
        for e in read_ndjson(t):
            if e["ev"] == "new":
                ctx.distinct.add(("hist", "".join(e["expr"]), tuple(e["start"])))
    for b in bad:
        e = b["event"]
        if e["ev"] == "next":
            clause = "C17.next" if prop == "C17" else "C16.denotes"
        else:
            clause = prop + (".rejects" if b.get("expected") == "err" else ".accepts")
        ctx.violations.append({"clause": clause, "class": e["ev"],
                               "witness": {"event": e, "expected": b.get("expected"), "clock": b.get("clock"), "last": b.get("last"),
                                           "n": per, "seeds": seeds, "mode": mode}})


@check("C17")
def c17(ctx):
    build_harness()
    model_check(ctx, "MC_Cron", "MC_Cron_full" if ctx.thorough else "MC_Cron_quick", workers=8, timeout=3000, heap="6g")
    cases = gen_cases(ctx, "Gen_Cron", "C17", 8, cfg="Gen_Cron")
    cron_case_violations(ctx, cases, lambda c, o: "C17.history" if o.get("clone") is None else "C17.clone")
    cron_channel_b(ctx, "C17", None, 16 if ctx.thorough else 8, 4000 if ctx.thorough else 700)
    return finish(ctx, rule="MC_Cron: every history of (advance clock by d in 7 values, call next) up to depth 3 (5 thorough) over 12 "
                  "schedules x 8 starts, each step asserting match, strict increase and that no matching minute lies in between; "
                  "channel A: TLC-generated histories (16 schedules x 12 starts x 8 (108 thorough) advance sequences) replayed on the "
                  "real iterator under the pinned clock, a clone stepped in lock-step; channel B: random satisfiable schedules from "
                  "the grammar, random starts 1970..2399 and advances 0 s..400 days, validated by Trace_Cron which carries `last` "
                  "itself. distinct_nontrivial = distinct (schedule, start[, advances]) histories.",
                  trusted=["verification hook astrolabe::verif::set_cron_now"])


def replay_cron(ctx, rp):
    w = rp["witness"]
    build_harness()
    if "case" in w:
        cases = ctx.path("case.ndjson")
        write_ndjson(cases, [w["case"]])
        cron_case_violations(ctx, cases, lambda c, o: rp.get("clause", "C16"))
        return
    for sd in w["seeds"]:
        t = ctx.path("replay-%d.ndjson" % sd)
        harness_json(["record-cron", "--out", t, "--n", w["n"]] + (["--mode", w["mode"]] if w.get("mode") else []),
                     env_extra={"VERIF_SEED": sd})
        evs = [e for e in read_ndjson(t) if e.get("i") == w["event"].get("i")]
        if not evs or any(evs[0].get(k) != w["event"].get(k) for k in ("ev", "d", "expr")):
            continue
        n, bad = validate_trace(ctx, "Trace_Cron", t)
        for b in bad:
            if b["event"].get("i") == w["event"].get("i"):
                ctx.violations.append({"clause": rp.get("clause", "C17.next"), "class": b["event"]["ev"], "witness": b})
        return
    raise ToolError("could not locate the recorded history of this replay file")


# ---------------------------------------------------------------------------------------------
# Timezone reader (C18, C19)
# ---------------------------------------------------------------------------------------------
CORPUS = os.path.join(VERIF, "corpus", "tzif")


def unshare_ok():
    import subprocess
    try:
        p = subprocess.run(["unshare", "-m", "sh", "-c", "mount --bind /etc/hostname /etc/hostname"], stdout=subprocess.PIPE,
                           stderr=subprocess.PIPE, timeout=120)
        return p.returncode == 0
    except Exception:
        return False


def local_resolve_with(path):
    """Offset::Local.resolve() with `path` bind-mounted over /etc/localtime in a private mount namespace."""
    import subprocess
    cmd = "mount --bind '%s' /etc/localtime && '%s' local-resolve" % (path, harness_bin())
    p = subprocess.run(["unshare", "-m", "sh", "-c", cmd], stdout=subprocess.PIPE, stderr=subprocess.PIPE, text=True, timeout=300)
    lines = [l for l in p.stdout.splitlines() if l.startswith("{")]
    if not lines:
        return {"k": "crash", "rc": p.returncode, "stderr": p.stderr[-300:]}
    return json.loads(lines[-1])


@check("C18")
def c18(ctx):
    import subprocess
    build_harness()
    # specification sanity: the calendar the rule days are computed with
    model_check(ctx, "MC_Civil", "MC_Civil_full" if ctx.thorough else "MC_Civil_quick", workers=4)
    # ... and the lookup operators themselves against enumerative definitions (rule days by counting, the offset as
    # "what the latest switch-over switched to", the latest transition by linear scan)
    run_tlc(ctx, "MC_TZ", timeout=900)
    # channel A: synthesized files
    cases = gen_cases(ctx, "Gen_TZ", "C18", 16 if ctx.thorough else 8, cfg="Gen_TZ")
    mism = cases + ".mism"
    s = harness_json(["replay", "--cases", cases, "--out", mism])
    nl = 0
    for c in read_ndjson(cases):
        nl += len(c["ts"])
        ctx.distinct.add(("synth", c["file"]["ver"], "".join(c["file"]["footer"]), len(c["file"]["trans"]), len(c["file"]["types"])))
    ctx.evaluations += nl
    for smp in s.get("samples", [])[:1]:
        ctx.sample({"case_file": smp["case"]["file"], "first_instants": smp["case"]["ts"][:4],
                    "expected": smp["case"]["exp"][0]["offs"][:4], "observed": smp["observed"].get("offs", [])[:4]})
    for m in read_ndjson(mism):
        c, o = m["case"], m["observed"]
        w = {"case": c, "observed": o}
        if o.get("k") == "ok":
            exp = c["exp"][0]["offs"]
            bad = [i for i, (e, b) in enumerate(zip(exp, o["offs"])) if e != "any" and e != b]
            w = {"case": c, "first_bad": {"instant": c["ts"][bad[0]], "expected": exp[bad[0]], "observed": o["offs"][bad[0]]} if bad else None,
                 "bad_instants": len(bad)}
        ctx.violations.append({"clause": "C18.lookup_synthesized" if o.get("k") == "ok" else "C18.rejects_wellformed",
                               "class": "".join(c["file"]["footer"])[:24], "witness": w})
    # channel B: real zone files (fat and slim re-encodings) with CPython zoneinfo as second opinion
    from concurrent.futures import ThreadPoolExecutor
    shards = 8
    per = 4000 if ctx.thorough else 250
    traces = [ctx.path("tz-%d.ndjson" % k) for k in range(shards)]

    def rec(k):
        raw = traces[k] + ".raw"
        harness_json(["record-tz", "--dir", CORPUS, "--out", raw, "--n", per, "--shard", k, "--nshards", shards],
                     env_extra={"VERIF_SEED": ctx.seed * 31 + k})
        p = subprocess.run([sys.executable, os.path.join(VERIF, "lib", "zi_opinion.py"), CORPUS, raw, traces[k]],
                           stdout=subprocess.PIPE, stderr=subprocess.PIPE, text=True)
        if p.returncode != 0:
            raise ToolError("zoneinfo second opinion failed: " + p.stderr[-400:])
    with ThreadPoolExecutor(max_workers=8) as ex:
        list(ex.map(rec, range(shards)))
    total, bad = parallel_validate(ctx, "Trace_TZ", traces, jobs=8, timeout=3000)
    ctx.evaluations += total
    nzones = 0
    for t in traces:
        for r in read_ndjson(t):
            nzones += 1
            ctx.distinct.add(("zone", r["zone"], r["enc"]))
            if nzones == 3:
                ctx.sample({"zone": r["zone"], "enc": r["enc"], "transitions": len(r["file"]["trans"]), "footer": r["file"]["footer_text"],
                            "instants": r["ts"][:3], "resolved": r["res"].get("offs", [])[:3]})
    for b in bad:
        if b["zi"]:
            raise ToolError("CPython zoneinfo disagrees with the specification / the harness's TZif reader on %s (%s): %s"
                            % (b["zone"], b["enc"], json.dumps(b["first"])))
        ctx.violations.append({"clause": "C18.lookup_zonefile", "class": b["zone"],
                               "witness": {"zone": b["zone"], "enc": b["enc"], "bad_instants": len(b["impl"]), "first": b["first"]}})
    # Offset::Local: the same lookup applied to /etc/localtime and the current time
    if unshare_ok():
        n = 0
        recs = []
        for z in sorted(os.listdir(CORPUS))[:: (3 if ctx.thorough else 12)]:
            path = os.path.join(CORPUS, z)
            r = local_resolve_with(path)
            ab = json.loads(run_harness(["tz-abstract", "--file", path]).strip().splitlines()[-1])
            pair = lambda ts: [ts // 86400 + 719162, ts % 86400]
            if r.get("k") != "ok":
                ctx.violations.append({"clause": "C18.local_resolve", "class": z, "witness": {"zone": z, "outcome": r}})
                continue
            recs.append({"i": n, "zone": z, "enc": "local", "file": ab, "ts": [pair(r["t0"]), pair(r["t1"])],
                         "unix": [r["t0"], r["t1"]], "res": {"k": "ok", "offs": [r["off"], r["off"]]}, "either": True})
            n += 1
        t = ctx.path("tz-local.ndjson")
        write_ndjson(t, recs)
        cnt, bad = validate_trace(ctx, "Trace_TZ", t)
        ctx.evaluations += n
        for b in bad:
            ctx.violations.append({"clause": "C18.local_resolve", "class": b["zone"], "witness": b})
        ctx.extra["offset_local_files_checked"] = n
    else:
        ctx.notes.append("unshare -m unavailable: Offset::Local glue not exercised")
        ctx.extra["offset_local_files_checked"] = 0
    return finish(ctx, rule="channel A: TLC synthesizes well-formed TZif files (versions 1-3 x 5 transition tables x 4 type sets x 18 "
                  "IANA-shaped footers of every rule kind, both hemispheres, footer made consistent with the last transition) and the "
                  "instants that matter (every transition -1/0/+1 s, every rule switch +-1 s in 7 years incl. leap and century "
                  "years) with the offset TZif!Lookup prescribes; the harness serialises each file and resolves through the real "
                  "reader. Channel B: 139 vendored zone files, fat and slim (cut at 2007) encodings, each transition +-1 s and random "
                  "instants 1900-2500, judged by Trace_TZ, with CPython zoneinfo as second opinion on spec and harness reader. "
                  "Offset::Local exercised under unshare -m with zone files bind-mounted over /etc/localtime. "
                  "distinct_nontrivial = distinct synthesized (version, footer, table, types) files plus distinct (zone, encoding).",
                  trusted=["verification hook astrolabe::verif::tzif_offsets", "harness TZif writer/reader (cross-checked by zoneinfo every run)",
                           "CPython zoneinfo as second opinion"])


@check("C19")
def c19(ctx):
    build_harness()
    cases = gen_cases(ctx, "Gen_TZHostile", "C19", 8, cfg="Gen_TZHostile")
    mism = cases + ".mism"
    s = harness_json(["replay", "--cases", cases, "--out", mism])
    ctx.evaluations += s["cases"]
    for c in read_ndjson(cases):
        m = c["mut"]
        ctx.distinct.add((c["seed"], m["kind"], m.get("field"), m.get("val"), m.get("at"), "".join(m.get("text", []))))
    for smp in s.get("samples", [])[:3]:
        ctx.sample(smp)
    for m in read_ndjson(mism):
        mu = m["case"]["mut"]
        ctx.violations.append({"clause": "C19.%s" % m["observed"].get("k"), "class": mu["kind"],
                               "witness": {"case": m["case"], "observed": m["observed"],
                                           "footer_text": "".join(mu.get("text", []))}})
    # channel B: random structure-aware mutations of the seeds and of real zone files
    from concurrent.futures import ThreadPoolExecutor
    shards = 8
    per = 400000 if ctx.thorough else 8000
    outs = [ctx.path("fuzz-%d.ndjson" % k) for k in range(shards)]
    seeds = [ctx.seed * 977 + k for k in range(shards)]

    def fz(k):
        return harness_json(["fuzz-tz", "--out", outs[k], "--n", per, "--dir", CORPUS], env_extra={"VERIF_SEED": seeds[k]})
    with ThreadPoolExecutor(max_workers=8) as ex:
        res = list(ex.map(fz, range(shards)))
    classes = {}
    for r in res:
        ctx.evaluations += r["cases"]
        for k, v in r["classes"].items():
            classes[k] = classes.get(k, 0) + v
    ctx.extra["random_mutation_outcomes"] = classes
    for k, o in enumerate(outs):
        for f in read_ndjson(o):
            ctx.violations.append({"clause": "C19.%s" % f["outcome"].get("k"), "class": "random-mutation",
                                   "witness": {"fuzz_seed": seeds[k], "i": f["i"], "n": per, "outcome": f["outcome"], "bytes": f["bytes"]}})
    # damaged /etc/localtime
    if unshare_ok():
        d = ctx.path("hostile")
        os.makedirs(d, exist_ok=True)
        run_harness(["tz-hostile-bytes", "--dir", d])
        n = 0
        for f in sorted(os.listdir(d)):
            r = local_resolve_with(os.path.join(d, f))
            n += 1
            if r.get("k") != "ok":
                ctx.violations.append({"clause": "C19.local_resolve", "class": f, "witness": {"file": f, "outcome": r}})
        ctx.evaluations += n
        ctx.extra["damaged_localtime_files"] = n
    else:
        ctx.extra["damaged_localtime_files"] = 0
    return finish(ctx, level="fault_enumeration",
                  rule="the TZif byte layout of Gen_TZHostile is the generator: every header count of either block x 8 value "
                  "classes, 22 truncation points, version bytes, transition type indices, magic damage, and footer strings from a "
                  "mutated POSIX-TZ grammar (11 heads x 33 rules x 8 (33 thorough) rules), applied to 8 seed files; each resulting "
                  "byte string is parsed and, if accepted, resolved at 42 timestamps incl. both ends of the DateTime range; the only "
                  "allowed outcomes are 'error' or 'offsets for all' within 1 s. Plus random 1-3-fold mutations of the seeds and of "
                  "24 real zone files, and damaged /etc/localtime files under unshare -m. distinct_nontrivial = distinct mutation "
                  "descriptors.",
                  trusted=["verification hook astrolabe::verif::tzif_offsets", "harness mutation engine"])


def replay_tz(ctx, rp):
    w = rp["witness"]
    build_harness()
    if "case" in w:
        cases = ctx.path("case.ndjson")
        write_ndjson(cases, [w["case"]])
        mism = cases + ".mism"
        harness_json(["replay", "--cases", cases, "--out", mism])
        for m in read_ndjson(mism):
            ctx.violations.append({"clause": rp.get("clause", ctx.pid), "class": "replay", "witness": m})
        return
    if "bytes" in w:
        # re-run the recorded random mutation stream up to the failing case
        out = ctx.path("fz.ndjson")
        harness_json(["fuzz-tz", "--out", out, "--n", w["n"], "--dir", CORPUS], env_extra={"VERIF_SEED": w["fuzz_seed"]})
        for f in read_ndjson(out):
            if f["i"] == w["i"]:
                ctx.violations.append({"clause": rp.get("clause", ctx.pid), "class": "replay", "witness": f})
        return
    raise ToolError("this witness is re-checked by re-running the property's quick command")


# ---------------------------------------------------------------------------------------------
# Text (C11, C12, C13, C14, C20)
# ---------------------------------------------------------------------------------------------
TEXT = {
    # pid: scenario of the random recorder, generator shards, random events quick/thorough
    "C11": dict(scen="text11", gshards=8, ev=(60000, 600000)),
    "C12": dict(scen="text12", gshards=16, ev=(40000, 400000)),
    "C13": dict(scen="text13", gshards=8, ev=(40000, 1600000)),
    "C20": dict(scen="text20", gshards=4, ev=(40000, 1600000)),
}


def text_key(e):
    p = "".join(e.get("p", []))
    shape = "".join(sorted(set(p)))[:24]
    v = e.get("val", {})
    era = "bc" if v.get("dn", 0) < 0 else "ad"
    return (e.get("op"), v.get("ty"), shape, era, v.get("off", 0) != 0, e.get("prec"), len(e.get("s", [])) if e.get("op") == "rfc_read" else None)


def observe_and_validate(ctx, cases, shards=8):
    """Channel A for text: TLC-generated inputs -> real code (harness observe) -> Trace_Text."""
    from concurrent.futures import ThreadPoolExecutor
    rows = open(cases).read().splitlines()
    parts = []
    for k in range(shards):
        pth = ctx.path("in-%d.ndjson" % k)
        with open(pth, "w") as f:
            f.write("\n".join(rows[k::shards]) + ("\n" if rows[k::shards] else ""))
        parts.append(pth)
    obs = [ctx.path("obs-%d.ndjson" % k) for k in range(shards)]

    def ob(k):
        return harness_json(["observe", "--cases", parts[k], "--out", obs[k]])
    with ThreadPoolExecutor(max_workers=8) as ex:
        list(ex.map(ob, range(shards)))
    return obs


def text_validate(ctx, traces, origin, replay_info):
    total, bad = parallel_validate(ctx, "Trace_Text", traces, jobs=8, timeout=3000)
    ctx.evaluations += total
    for t in traces:
        with open(t) as fh:
            for n, line in enumerate(fh):
                e = json.loads(line)
                ctx.distinct.add(text_key(e))
                if n in (3, 1777) and t == traces[0]:
                    ctx.sample({k: ("".join(v) if isinstance(v, list) and v and isinstance(v[0], str) else v) for k, v in e.items()})
    for b in bad:
        e = b["event"]
        for cl in b["clauses"]:
            if not cl.startswith(ctx.pid):
                # a clause of a neighbouring text property observed on the way (e.g. C11 inside a C12 record)
                cl = ctx.pid + ".via_" + cl
            ctx.violations.append({"clause": cl, "class": e.get("op"),
                                   "witness": {"origin": origin, "event": e, "expected": b.get("expected"),
                                               "pattern_text": "".join(e.get("p", [])), **replay_info}})
    return total


def text_check(ctx):
    cfg = TEXT[ctx.pid]
    build_harness()
    model_check(ctx, "MC_Pattern", "MC_Pattern_full" if ctx.thorough else "MC_Pattern_quick", workers=8, timeout=3000, heap="6g")
    if ctx.pid in ("C11", "C12", "C20"):
        model_check(ctx, "MC_Civil", "MC_Civil_quick", workers=4)     # the calendar fields the renderer reads
    if ctx.pid == "C13":
        run_tlc(ctx, "MC_Rfc3339", timeout=900)     # the recognizer against an independent writer; totality on edits
    cases = gen_cases(ctx, "Gen_Text", ctx.pid, cfg["gshards"], cfg="Gen_Text")
    obs = observe_and_validate(ctx, cases)
    text_validate(ctx, obs, "generated", {})
    # channel B: random observations
    from concurrent.futures import ThreadPoolExecutor
    ev = cfg["ev"][1 if ctx.thorough else 0]
    shards = 8
    per = ev // shards
    traces = [ctx.path("rnd-%d.ndjson" % k) for k in range(shards)]
    seeds = [ctx.seed * 6151 + k for k in range(shards)]

    def rec(k):
        return harness_json(["record-text", "--scenario", cfg["scen"], "--out", traces[k], "--n", per], env_extra={"VERIF_SEED": seeds[k]})
    with ThreadPoolExecutor(max_workers=8) as ex:
        list(ex.map(rec, range(shards)))
    text_validate(ctx, traces, "random", {"scenario": cfg["scen"], "n": per, "seeds": seeds})
    if ctx.pid == "C12":
        ctx.extra["note"] = "records outside the unambiguous-pattern grammar (Trace_Text!Unambiguous / Recon) are recorded but not judged"
    return finish(ctx, rule="channel A: TLC enumerates the inputs of Gen_Text/%s, the real code is run on each (harness observe) and "
                  "Trace_Text judges every observation with the Pattern / Rfc3339 operators on the value's local view; channel B: "
                  "random values x random patterns / strings (scenario %s) judged the same way. MC_Pattern checks the "
                  "character-at-a-time tokenizer machine against its definition on every pattern up to length 6 (7). "
                  "distinct_nontrivial = distinct (operation, type, set of pattern characters, era, offset?, precision/length) classes."
                  % (ctx.pid, cfg["scen"]),
                  trusted=["harness: value construction (from_timestamp, add_nanos, set_offset), character re-encoding of strings"])


for _pid in TEXT:
    CHECKS[_pid] = text_check


@check("C14")
def c14(ctx):
    build_harness()
    model_check(ctx, "MC_Pattern", "MC_Pattern_full" if ctx.thorough else "MC_Pattern_quick", workers=8, timeout=3000, heap="6g")
    cases = gen_cases(ctx, "Gen_Text", "C14", 8, cfg="Gen_Text")
    # the families are expanded exhaustively by the harness, in parallel slices
    from concurrent.futures import ThreadPoolExecutor
    rows = open(cases).read().splitlines()
    shards = 12
    outs = []

    def fam(k):
        part = ctx.path("fam-%d.ndjson" % k)
        with open(part, "w") as f:
            f.write("\n".join(rows[k::shards]) + "\n")
        out = ctx.path("fam-%d.fail" % k)
        r = harness_json(["families", "--cases", part, "--out", out], timeout=7000)
        return r, out
    with ThreadPoolExecutor(max_workers=12) as ex:
        res = list(ex.map(fam, range(shards)))
    classes = {}
    for r, out in res:
        ctx.evaluations += r["cases"]
        for k, v in r["classes"].items():
            classes[k] = classes.get(k, 0) + v
        for smp in r.get("samples", [])[:1]:
            ctx.sample(smp)
        for f in read_ndjson(out):
            c, o = f["case"], f["observed"]
            ctx.violations.append({"clause": "C14.%s.%s" % (o["k"], c["op"]), "class": "".join(c.get("p", []))[:12] or c["op"],
                                   "witness": {"case": dict(c, exp=[{"k": "noncrash"}]), "observed": o,
                                               "input_text": "".join(c.get("s", [])), "pattern_text": "".join(c.get("p", []))}})
    for row in rows:
        f = json.loads(row)
        ctx.distinct.add((f["op"], f.get("ty"), f.get("sym"), f.get("w"), "".join(f.get("base", []))))
    ctx.extra["family_outcomes"] = classes
    ctx.exhaustive = True
    # channel B: grammar-aware and mutational random pairs, judged by Trace_Text (NoPanicClauses)
    shards = 8
    per = (6000000 if ctx.thorough else 120000) // shards
    traces = [ctx.path("rnd-%d.ndjson" % k) for k in range(shards)]
    seeds = [ctx.seed * 4099 + k for k in range(shards)]

    def rec(k):
        return harness_json(["record-text", "--scenario", "text14", "--out", traces[k], "--n", per], env_extra={"VERIF_SEED": seeds[k]})
    with ThreadPoolExecutor(max_workers=8) as ex:
        list(ex.map(rec, range(shards)))
    text_validate(ctx, traces, "random", {"scenario": "text14", "n": per, "seeds": seeds})
    return finish(ctx, level="fault_enumeration",
                  rule="the specification contributes the input space: for each of the 19 symbols x widths 1..10 x 3 types, EVERY "
                  "input string up to length 3 (4 thorough) over {0 7 - + a Z : e-acute CJK}; every pattern up to length 5 (6) over "
                  "{y M ' - Q H} (incl. unbalanced quotes) x 12 inputs for parse and x 1 value for format; every truncation, "
                  "single-character deletion, substitution and insertion of RFC 3339 and cron seeds (also through FromStr and serde); "
                  "every string up to length 4 (5) through from_str / serde; each family expanded exhaustively by the harness under "
                  "catch_unwind with overflow checks on. Plus random grammar-aware and mutational pairs judged by Trace_Text. The "
                  "only allowed outcomes: Err, or Ok with a valid in-range value. distinct_nontrivial = number of distinct families.",
                  trusted=["harness: family expansion and outcome classification"])


def replay_text(ctx, rp):
    w = rp["witness"]
    build_harness()
    if "case" in w:
        cases = ctx.path("case.ndjson")
        write_ndjson(cases, [w["case"]])
        mism = cases + ".mism"
        harness_json(["replay", "--cases", cases, "--out", mism])
        for m in read_ndjson(mism):
            ctx.violations.append({"clause": rp.get("clause", ctx.pid), "class": "replay", "witness": m})
        return
    e = {k: v for k, v in w["event"].items() if k in ("op", "ty", "val", "p", "s", "prec") and not (k == "s" and w["event"]["op"] in ("roundtrip", "fromstr"))}
    cases = ctx.path("case.ndjson")
    write_ndjson(cases, [e])
    obs = ctx.path("obs.ndjson")
    harness_json(["observe", "--cases", cases, "--out", obs])
    n, bad = validate_trace(ctx, "Trace_Text", obs)
    for b in bad:
        for cl in b["clauses"]:
            ctx.violations.append({"clause": cl, "class": "replay", "witness": b})


def replay_civil(ctx, rp):
    w = rp["witness"]
    if "event" in w:
        return replay_text(ctx, rp)        # a formatted field judged by the pattern specification
    table = civil_common(ctx)
    t = ctx.path("replay.ndjson")
    if "case" in w:
        cases = ctx.path("case.ndjson")
        write_ndjson(cases, [w["case"]])
        mism = ctx.path("mism.ndjson")
        s = harness_json(["replay", "--cases", cases, "--out", mism])
        cases_to_violations(ctx, s, mism, lambda c: ctx.pid + "." + c["op"])
        return
    if "dn" in w:
        args = ["--days", str(w["dn"])]
    elif "ymd" in w:
        args = ["--triples", ":".join(str(x) for x in w["ymd"])]
    elif "year" in w:
        args = ["--setdoy", "%d:%d" % (w["year"], w["n"])]
    else:
        raise ToolError("unrecognised witness in replay file")
    harness_json(["oracle-sample", "--table", table, "--out", t] + args)
    n, bad = validate_trace(ctx, "Trace_Civil", t)
    for b in bad:
        for cl in b["clauses"]:
            ctx.violations.append({"clause": cl, "class": cl, "witness": {"dn": b["dn"], "expected": b["expected"]}})
    ctx.evaluations += n


REPLAYERS = {"C01": replay_civil, "C02": replay_civil}
for _pid in OPS:
    REPLAYERS[_pid] = replay_ops
for _pid in list(TEXT) + ["C14"]:
    REPLAYERS[_pid] = replay_text
REPLAYERS["C18"] = replay_tz
REPLAYERS["C19"] = replay_tz
REPLAYERS["C16"] = replay_cron
REPLAYERS["C17"] = replay_cron


def main():
    args = sys.argv[1:]
    if not args or args[0] in ("-h", "--help"):
        print(__doc__)
        return 2
    if args[0] == "--setup":
        build_harness()
        return 0
    pid = args[0]
    tier = os.environ.get("VERIF_TIER", "quick")
    replay = None
    i = 1
    while i < len(args):
        if args[i] == "--tier":
            tier = args[i + 1]
            i += 2
        elif args[i] == "--replay":
            replay = args[i + 1]
            i += 2
        else:
            i += 1
    try:
        seed = int(os.environ.get("VERIF_SEED", "1"))
    except ValueError:
        seed = 1
    if pid not in CHECKS:
        print("no check for", pid)
        return 2
    ctx = Ctx(pid, tier, seed)
    try:
        if replay:
            rp = json.load(open(replay))
            REPLAYERS[pid](ctx, rp)
            rc = 0
            for v in ctx.violations:
                log("VIOLATION property=%s replay=%s" % (pid, replay))
                log("  clause=%s witness=%s" % (v["clause"], json.dumps(v["witness"])[:600]))
                rc = 1
            if rc == 0:
                log("replay: the recorded violation does not reproduce on the current tree")
            ctx.cleanup()
            return rc
        return CHECKS[pid](ctx)
    except Hang as h:
        # a call that does not come back is an observation about the code under test, not a tool problem
        if replay:
            log("VIOLATION property=%s replay=%s" % (pid, replay))
            log("  clause=%s.no_return witness=%s" % (pid, json.dumps(h.what)[:600]))
            ctx.cleanup()
            return 1
        w = h.what.get("what")
        witness = dict(w) if isinstance(w, dict) else {"what": w}
        witness.update({"limit_s": h.what.get("limit_s"), "harness": h.harness_args[:6]})
        ctx.violations.append({"clause": pid + ".no_return", "class": "no_return", "witness": witness})
        return finish(ctx, rule="the run was stopped: a call into the code under test did not return within the watchdog's deadline "
                      "(VERIF_HANG_SECS, default 120 s per call); what had been checked until then is in the counters",
                      trusted=["harness watchdog"])
    except ToolError as e:
        log("TOOL-ERROR: %s" % e)
        ctx.cleanup()
        return 2
    except Exception:
        traceback.print_exc()
        ctx.cleanup()
        return 2


if __name__ == "__main__":
    sys.exit(main())
