#!/usr/bin/env python3
"""Driver of the model-based verification of GiyoMoon/astrolabe.

  ./check.py <Cxx> [--tier quick|thorough] [--replay <file>]
  ./check.py --setup        build the harness offline
  ./check.py --selftest     demonstrate the binding (corrupted traces must be rejected)

Exit 0: the property held on everything explored (KNOWN-FINDING lines allowed).
Exit 1: at least one unlisted violation (`VIOLATION property=<id> replay=<path>`).
Exit 2: tool error (build failure, TLC crash/timeout, specification-sanity failure)."""
import json, os, sys, time, traceback

sys.path.insert(0, os.path.join(os.path.dirname(os.path.abspath(__file__)), "lib"))
from vlib import *  # noqa

CHECKS = {}


def check(pid):
    def deco(f):
        CHECKS[pid] = f
        return f
    return deco


def sweep_to_violations(ctx, result, prefix):
    """Aggregated sweep output -> one violation record per (clause, class)."""
    for clause, c in result["clauses"].items():
        ctx.evaluations += c["checked"]
        if not clause.startswith(prefix) and clause != "panic":
            # clauses of neighbouring properties evaluated on the way are reported by their own check
            continue
        if c["bad"]:
            first = c["first"]
            for k, (cls, n) in enumerate(sorted(c["classes"].items())):
                w = dict(first[min(k, len(first) - 1)]) if first else {}
                ctx.violations.append({"clause": clause, "class": cls, "count": n, "witness": w})


def cases_to_violations(ctx, summary, mism_path, clause_of):
    ctx.evaluations += summary["cases"]
    for s in summary.get("samples", [])[:2]:
        ctx.sample(s)
    for m in read_ndjson(mism_path):
        ctx.violations.append({"clause": clause_of(m["case"]), "class": m["case"].get("op"),
                               "witness": {"case": m["case"], "observed": m["observed"]}})


def civil_common(ctx):
    """Specification sanity for the calendar + the TLC-generated cycle table."""
    build_harness()
    if ctx.thorough:
        model_check(ctx, "MC_Civil", "MC_Civil_full", workers=4)
        run_tlc(ctx, "MC_CivilPeriod", env={"STRIDE": 1}, timeout=900)
    else:
        model_check(ctx, "MC_Civil", "MC_Civil_quick", workers=4)
        run_tlc(ctx, "MC_CivilPeriod", env={"STRIDE": 11}, timeout=600)
    table = ctx.path("cycle.ndjson")
    run_tlc(ctx, "Gen_Cycle", env={"OUT": table})
    return table


def civil_samples(ctx, table, prefixes):
    """Channel B: oracle + implementation observations judged by TLC (Trace_Civil)."""
    n = 120000 if ctx.thorough else 20000
    shards = 6 if ctx.thorough else 2
    traces = []
    for k in range(shards):
        t = ctx.path("civil-%d.ndjson" % k)
        harness_json(["oracle-sample", "--table", table, "--out", t, "--n", n // shards],
                     env_extra={"VERIF_SEED": ctx.seed * 1000 + k})
        traces.append(t)
    total, bad = parallel_validate(ctx, "Trace_Civil", traces)
    ctx.evaluations += total
    rows = read_ndjson(traces[0])
    for r in rows[:2000:997]:
        ctx.sample(r)
    for b in bad:
        for cl in b["clauses"]:
            if cl.startswith("oracle."):
                raise ToolError("the harness's table oracle disagrees with the specification: %s" % json.dumps(b))
            if cl.startswith(prefixes):
                ctx.violations.append({"clause": cl, "class": cl, "witness": {"dn": b["dn"], "expected": b["expected"],
                                                                            "src": b["src"]}})
    return total


@check("C01")
def c01(ctx):
    table = civil_common(ctx)
    out = ctx.path("sweep.json")
    run_harness(["sweep", "--table", table, "--out", out, "--what", "days01"] + (["--thorough"] if ctx.thorough else []))
    r1 = json.load(open(out))
    sweep_to_violations(ctx, r1, "C01")
    run_harness(["sweep", "--table", table, "--out", out, "--what", "triples"] + (["--thorough"] if ctx.thorough else []))
    r2 = json.load(open(out))
    sweep_to_violations(ctx, r2, "C01")
    ctx.extra["sweep_space"] = {**r1["space"], **r2["space"]}
    ctx.exhaustive = True
    civil_samples(ctx, table, ("C01",))
    cases = ctx.path("cases.ndjson")
    o, _, _ = run_tlc(ctx, "Gen_Civil", env={"WHICH": "C01", "OUT": cases})
    mism = ctx.path("mism.ndjson")
    s = harness_json(["replay", "--cases", cases, "--out", mism])
    cases_to_violations(ctx, s, mism, lambda c: "C01." + c["op"])
    ndays = 1 << 32
    ctx.extra["distinct_inputs"] = {"day_numbers": ndays, "triples": r2["clauses"].get("C01.triple_value", {}).get("checked", 0)
                                    + r2["clauses"].get("C01.triple_refused", {}).get("checked", 0),
                                    "tlc_generated_cases": s["cases"]}
    ctx.distinct = range(ndays)  # every day number is a distinct input with its own label
    return finish(ctx, rule="every 32-bit day number is swept (as_ymd = TLC-generated cycle table extended by the "
                  "400-year period; from_ymd(as_ymd) gives the day back); from_ymd over year x month 0..13 x day 0..32 "
                  "(all years in thorough, every 97th plus both range ends and years -450..450 in quick); "
                  "TLC-generated boundary cases replayed; 20k-120k observations (and the table oracle itself) judged by "
                  "TLC against the closed forms. distinct_nontrivial = distinct day numbers swept (each has its own label).",
                  trusted=["harness: table lookup + 400-year extension (re-validated by TLC on every run through "
                           "Trace_Civil 'oracle' events)", "Date::from_timestamp is used to reach a day number"])


@check("C02")
def c02(ctx):
    table = civil_common(ctx)
    out = ctx.path("sweep.json")
    run_harness(["sweep", "--table", table, "--out", out, "--what", "days02"] + (["--thorough"] if ctx.thorough else []))
    r1 = json.load(open(out))
    sweep_to_violations(ctx, r1, "C02")
    run_harness(["sweep", "--table", table, "--out", out, "--what", "setdoy"] + (["--thorough"] if ctx.thorough else []))
    r2 = json.load(open(out))
    sweep_to_violations(ctx, r2, "C02")
    ctx.extra["sweep_space"] = {**r1["space"], **r2["space"]}
    ctx.exhaustive = True
    civil_samples(ctx, table, ("C02",))
    cases = ctx.path("cases.ndjson")
    run_tlc(ctx, "Gen_Civil", env={"WHICH": "C02", "OUT": cases})
    mism = ctx.path("mism.ndjson")
    s = harness_json(["replay", "--cases", cases, "--out", mism])
    cases_to_violations(ctx, s, mism, lambda c: "C02." + c["op"])
    ctx.distinct = range(1 << 32)
    return finish(ctx, rule="every 32-bit day number: weekday() and day_of_year() against the TLC-generated cycle table; "
                  "format fields w q e eeeeeee D on every 37th day (quick) / every day (thorough); set_day_of_year(0..367) "
                  "on a date of every 61st year plus edges (quick) / every year (thorough); TLC-generated setter cases; "
                  "sampled observations incl. ww qq DDD ee eeeeeeee judged by TLC. distinct_nontrivial = distinct day numbers swept.",
                  trusted=["harness: table lookup + 400-year extension (re-validated by TLC on every run)",
                           "Date::from_timestamp is used to reach a day number"])


def replay_civil(ctx, rp):
    w = rp["witness"]
    table = civil_common(ctx)
    t = ctx.path("replay.ndjson")
    if "case" in w:
        cases = ctx.path("case.ndjson")
        write_ndjson(cases, [w["case"]])
        mism = ctx.path("mism.ndjson")
        s = harness_json(["replay", "--cases", cases, "--out", mism])
        cases_to_violations(ctx, s, mism, lambda c: ctx.pid + "." + c["op"])
        return
    if "dn" in w:
        args = ["--days", str(w["dn"])]
    elif "ymd" in w:
        args = ["--triples", ":".join(str(x) for x in w["ymd"])]
    elif "year" in w:
        args = ["--setdoy", "%d:%d" % (w["year"], w["n"])]
    else:
        raise ToolError("unrecognised witness in replay file")
    harness_json(["oracle-sample", "--table", table, "--out", t] + args)
    n, bad = validate_trace(ctx, "Trace_Civil", t)
    for b in bad:
        for cl in b["clauses"]:
            ctx.violations.append({"clause": cl, "class": cl, "witness": {"dn": b["dn"], "expected": b["expected"]}})
    ctx.evaluations += n


REPLAYERS = {"C01": replay_civil, "C02": replay_civil}


def main():
    args = sys.argv[1:]
    if not args or args[0] in ("-h", "--help"):
        print(__doc__)
        return 2
    if args[0] == "--setup":
        build_harness()
        return 0
    pid = args[0]
    tier = os.environ.get("VERIF_TIER", "quick")
    replay = None
    i = 1
    while i < len(args):
        if args[i] == "--tier":
            tier = args[i + 1]
            i += 2
        elif args[i] == "--replay":
            replay = args[i + 1]
            i += 2
        else:
            i += 1
    try:
        seed = int(os.environ.get("VERIF_SEED", "1"))
    except ValueError:
        seed = 1
    if pid not in CHECKS:
        print("no check for", pid)
        return 2
    ctx = Ctx(pid, tier, seed)
    try:
        if replay:
            rp = json.load(open(replay))
            REPLAYERS[pid](ctx, rp)
            rc = 0
            for v in ctx.violations:
                log("VIOLATION property=%s replay=%s" % (pid, replay))
                log("  clause=%s witness=%s" % (v["clause"], json.dumps(v["witness"])[:600]))
                rc = 1
            if rc == 0:
                log("replay: the recorded violation does not reproduce on the current tree")
            ctx.cleanup()
            return rc
        return CHECKS[pid](ctx)
    except ToolError as e:
        log("TOOL-ERROR: %s" % e)
        ctx.cleanup()
        return 2
    except Exception:
        traceback.print_exc()
        ctx.cleanup()
        return 2


if __name__ == "__main__":
    sys.exit(main())
